"""round-2 prompt: like agent_prompt.py but lists earlier seeded changes for the property so that new ones differ"""
import json, sys, glob, os, subprocess
pid = sys.argv[1]
base = subprocess.run(['/venv/bin/python', '/verif/tools/agent_prompt.py', pid], capture_output=True, text=True).stdout
prev = []
for d in sorted(os.path.dirname(x) for x in glob.glob('/verif/seeded/*/meta.json')):
    m = json.load(open(d + '/meta.json'))
    if m['breaks_property'] == pid or pid in os.path.basename(d):
        n = open(d + '/notes.md').read().strip().split('\n')
        prev.append('- ' + ' '.join(n[:6])[:500])
extra = ('\n\nEarlier rounds already produced the following changes for this property; do NOT repeat them or close variants of them '
         '(same line, same mechanism). Look for different mechanisms, other functions, other builders/ops, other boundary conditions, '
         'interactions between two features, state carried between calls, or rarely used parameters:\n' + '\n'.join(prev) + '\n') if prev else ''
print(base + extra)
