"""Regenerates MANIFEST.json from tools/manifest_src.py (single source of truth)."""
import json, os, sys
sys.path.insert(0, os.path.dirname(os.path.abspath(__file__)))
from manifest_src import CLAIMED, NOT_YET
V = os.path.dirname(os.path.dirname(os.path.abspath(__file__)))
checks = []
for pid, c in sorted(CLAIMED.items()):
    checks.append({
        'property_id': pid,
        'quick_cmd': f'./check {pid} --tier quick',
        'thorough_cmd': f'./check {pid} --tier thorough',
        'evidence_file': f'/verif/evidence/{pid}.json',
        'replay_cmd_template': f'./check {pid} --replay {{path}}',
        'engine': c.get('engine', 'E1-enumerator'),
        'level_claimed': {'category': 'model_checking', 'text': c['text'], 'design_ref': c['design_ref']},
        'level_note': c['note'],
        'technique': c['technique'],
    })
m = {
    'version': 1,
    'setup_cmd': 'sh tools/setup.sh',
    'hooks': {
        'guard': 'TAPESCRIPT_VERIF',
        'enable': 'no source hooks: checks import /repo/tapescript directly with time.time and '
                  'secrets.token_bytes replaced before import (mc/env.py); TAPESCRIPT_VERIF=1 is exported '
                  'but no code in /repo reads it',
        'baseline_off_cmd': 'cd /repo && /venv/bin/python -m pytest -ra -q -p no:cacheprovider --timeout=900 '
                            '--continue-on-collection-errors',
        'source_commits': [],
        'add_only': True,
    },
    'engines': [
        {'name': 'E1-enumerator', 'path': 'mc/run.py',
         'serves_properties': sorted(CLAIMED),
         'kind_free_text': 'bounded-exhaustive case enumerator: complete finite spaces sharded over 16 '
                           'processes, every case executed on the real code and judged by a reference model'},
        {'name': 'E2-explorer', 'path': 'mc/explore.py',
         'serves_properties': sorted(p for p, c in CLAIMED.items() if c.get('engine') == 'E2-explorer'),
         'kind_free_text': 'explicit-state BFS whose transitions are calls of the real API, states are '
                           'canonical snapshots of the real mutable objects'},
    ],
    'checks': checks,
    'not_applicable': [{'property_id': p, 'reason': r} for p, r in sorted(NOT_YET.items())],
    'notes': 'All checks are bounded exhaustive enumeration / explicit-state exploration of the real '
             'implementation (model checking family); see DESIGN.md. Exit 0 held / 1 violation / 2 harness problem.',
}
json.dump(m, open(os.path.join(V, 'MANIFEST.json'), 'w'), indent=1)
print('claimed', sorted(CLAIMED), 'not yet', sorted(NOT_YET))
