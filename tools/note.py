"""tools/note.py <seeded id> <check id> <text>: record in seeded/<id>/meta.json what a check does with the change now"""
import json, sys
sid, cid, text = sys.argv[1:4]
p = f'/verif/seeded/{sid}/meta.json'
m = json.load(open(p))
m['my_checks'][cid] = text
json.dump(m, open(p, 'w'), indent=1)
