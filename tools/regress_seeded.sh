#!/bin/sh
# runs every seeded change against its owning property's quick check; prints a line per change (expected exit=1)
cd "$(dirname "$0")/.."
for d in seeded/*/; do
  id=$(basename $d); pid=${id%-*}
  out=$(VERIF_TIMEOUT_S=900 timeout 1200 tools/mut.sh $d/patch.diff $pid 2>&1 | grep "^MUT\|PATCH-FAILED" | head -1 | cut -c1-160)
  echo "$id: $out"
done
