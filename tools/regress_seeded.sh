#!/bin/sh
# runs every seeded change against its owning property's quick check (P at a time, default 4); one line per change (expected exit=1)
# usage: tools/regress_seeded.sh [P] [file with "<id>:" lines to skip]
cd "$(dirname "$0")/.."
P=${1:-4}; SKIP=${2:-/dev/null}
ls -d seeded/*/ | while read d; do id=$(basename $d); grep -q "^$id:" "$SKIP" || echo "$id"; done | \
  xargs -P "$P" -I{} sh -c 'id={}; pid=${id%-*}; out=$(VERIF_TIMEOUT_S=900 timeout 1200 tools/mut.sh seeded/$id/patch.diff $pid 2>&1 | grep "^MUT\|PATCH-FAILED" | head -1 | cut -c1-160); echo "$id: $out"'
