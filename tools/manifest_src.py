ALL = ['C%02d' % i for i in range(1, 21)]
T_ENUM = 'bounded exhaustive enumeration of {} on the real code, judged by {}'
CLAIMED = {
 'C01': dict(
  text='Every list of 1..4 scripts from complete families (all raw scripts <=2 bytes, all raw pairs <=1 byte, every adversarial witness of '
       'the control-flow grammar up to the node bound x 130 lock skeletons, all 3-script lists over 1-node witnesses, 7 initial caches, 23 '
       'limit triples incl. 0/-1) is run through run_auth_scripts; the verdict must equal the reference interpreter\'s and the call must never raise.',
  design_ref='DESIGN.md 4/C01', technique=T_ENUM.format('script lists', 'a reference interpreter'),
  note='Trusted base: ref/refvm.py (written from docs.md/language_spec.md). Witnesses beyond the node bound rely on the small-scope argument.'),
 'C02': dict(
  text='Full 256 flags x (18 quick / 256 thorough) allowed masks, all 256 presence subsets x 256 flags, every single-bit corruption of key / '
       'signature / covered / excluded fields, stack forms over 11 message lengths; honest signatures come from an independent RFC 8032 '
       'implementation, never from OP_SIGN.',
  design_ref='DESIGN.md 4/C02', technique=T_ENUM.format('flag/presence/corruption products', 'an RFC 8032 reference'),
  note='Trusted base: ref/refed.py (checked against RFC 8032 vectors at start-up). Keys/field contents are 3 representatives each (data independence).'),
 'C03': dict(
  text='Every ordered sequence of m signature tokens (valid v0 / flagged v1 / explicit-00 / outsider / garbage / corrupted) for every m<=n, '
       'n<=4 (quick) / 5 (thorough), all key-list permutations up to n=3/4, allowed flags 01 and 00, through OP_CHECK_MULTISIG(_VERIFY) and '
       'make_multisig_lock; oracle = maximum matching on the reference validity relation.',
  design_ref='DESIGN.md 4/C03', technique=T_ENUM.format('signature multisets x key orders', 'a matching oracle over RFC 8032 reference signatures'),
  note='Distinct listed keys (the quantifier). Ed25519 unforgeability assumed for "never true".'),
 'C06': dict(
  text='Differential model checking of the VM against a reference interpreter: STEP = one instruction from every state of a bounded state '
       'set (all opcodes x boundary operands x stacks of depth<=3 over 16/40 items x caches x limit configs, plus all operand truncations); '
       'CTRL = every control-flow program up to the node bound (full grammar <=3/4 nodes, skeleton <=4/5, nesting chains depth 3/4).',
  design_ref='DESIGN.md 4/C06', technique='explicit enumeration of the single-step transition relation and of all bounded programs; reference-model comparison',
  note='Trusted base: ref/refvm.py; behaviour the documents leave open is "unspecified" and only counted (about 7% of STEP cases).'),
 'C07': dict(
  text='All sequences of <=3/4 resource-hungry statements x 65 limit triples run on the real VM with instrumented deque/Stack/Tape/opcode '
       'table; invariants (item count, item size, no silent drop, tape pointer monotone and in range, CALL/EVAL depth, loop iterations, '
       'instruction horizon) are evaluated at every mutation; limit outcomes judged against the reference; huge operands under tracemalloc; '
       'deep nesting x recursion on the bare VM.',
  design_ref='DESIGN.md 4/C07', technique='exhaustive program x limit enumeration with per-step invariant monitoring of the real VM',
  note='callstack_limit > 128 out of scope (host recursion limit). One known finding (RecursionError under nested recursion).'),
 'C08': dict(
  text='Every sequence of <=2/3 statements over every cache-writing path x every spelling of the protected key names, all skeleton / '
       'adversarial-witness control programs, and the typed STEP space run with a recording dict as cache: any write/delete with a non-bytes '
       'key or any change of a str-keyed value (deep compare) at any step, including failed runs, is a violation.',
  design_ref='DESIGN.md 4/C08', technique='exhaustive enumeration of cache-attack programs with a recording cache (invariant at every write)',
  note='No cache-writing plugin/contract installed (statement premise).'),
 'C09': dict(
  text='Every nesting context of depth <=2/3 over ten context kinds (111/1111 contexts) x 63 (configuration, probe) pairs: each flag 0-10 '
       'off, thresholds, disallow_OP_EVAL, eval_return, per-run and global plugins/contracts, SET/UNSET_FLAG; compared with the reference '
       'interpreter and with the count of signature instructions executed.',
  design_ref='DESIGN.md 4/C09', technique='exhaustive context x configuration product on the real VM against a reference interpreter',
  note='Flag scope across body boundaries is undocumented and not judged.'),
 'C10': dict(
  text='Every value of complete structured families (all ints in [-2^17,2^17], all +-(2^k+d) up to 2^16384, all two-bit and binade-edge '
       'integers, every 1-2 byte string, every float32 exponent x sparse/dense mantissa family; thorough: all 2^32 float32 patterns) through the '
       'real codec and integer instructions, compared with an independent decoder.',
  design_ref='DESIGN.md 4/C10', technique=T_ENUM.format('the input space', 'a reference codec'),
  note='Trusts int.from_bytes / math.ldexp as the independent codec.'),
 'C16': dict(
  text='Complete grid: 48 anchors (0,1,2, 2^k+-2 for every width boundary) x constraint c=t+-2 in every 1..9-byte encoding x 6 ts thresholds x '
       'clock positions +-2 around the slack, CHECK_EPOCH likewise, malformed inputs, and the after/before/between lock builders through '
       'run_auth_scripts with a virtual clock.',
  design_ref='DESIGN.md 4/C16', technique=T_ENUM.format('the (t, now, c, threshold, encoding) grid', 'the arithmetic of the statement'),
  note='Virtual clock bound into the package before import. One known finding (before-lock accepts far-future timestamps).'),
 'C17': dict(
  text='Seeds x 13 message lengths x tweak scalars (edge values and all 32 clamp-bit patterns, raw and clamped): make (both makers) -> check -> '
       'decrypt -> verify -> recover, each identity re-derived with reference Ed25519 arithmetic; every single-bit corruption of the five check '
       'inputs; builders end to end over 6 sigfield/flag sets.',
  design_ref='DESIGN.md 4/C17', technique=T_ENUM.format('(seed, message, tweak) products and all bit positions', 'reference Ed25519 arithmetic'),
  note='t = 0 mod L outside the domain. Trusted base ref/refed.py.'),
 'C11': dict(
  text='Abstract programs x spelling vectors, both enumerated completely: every non-block instruction x operand boundary values x every '
       'documented name spelling / case / value style, PUSH sugar sizes, all NOP codes, every control program up to the node bound x all '
       'terminator/hoist combinations x a comment at every symbol gap x whitespace kinds, sugar forms, and un-encodable sources; accepted '
       'sources must compile to the reference assembler\'s bytes, un-encodable ones must raise.',
  design_ref='DESIGN.md 4/C11', technique=T_ENUM.format('programs x spellings', 'a reference assembler'),
  note='Trusted base: ref/refasm.py (from language_spec.md / docs.md). Rejected-but-valid sources are only counted (no claim in the statement).'),
 'C12': dict(
  text='Termination: every byte string of length <=2 (quick; <=3 thorough = 16.8M) plus the structured length family (declared length x '
       'payload x nesting) decided by progress counting on Tape.read; round trip compile(decompile(b)) == b and listing-vs-reference '
       'disassembly for every enumerated compiler output, every builder output over a small alphabet and all repository vectors.',
  design_ref='DESIGN.md 4/C12', technique=T_ENUM.format('byte strings and compiler/builder outputs', 'progress monitors and a reference disassembler'),
  note='Horizon 4*len+16 tape reads; "random strings up to 70 KiB" replaced by the complete structured family.'),
 'C19': dict(
  text='Explicit-state BFS over the real registry API: plugin, contract+interface and alias subsystems each to a fixpoint (256 / 144 / 9 '
       'states, all histories of any length), and all 44 operations (registry calls + run/compile/assemble observers) in every order up to '
       'length 4/5; state = snapshot of all process-global mutable state including every mutable default argument; set-model refinement on '
       'every edge, probes in every state, observers must be self-loops with history-independent results.',
  design_ref='DESIGN.md 4/C19', technique='explicit-state model checking (BFS with canonical state hashing) of the real registry API against a set model',
  engine='E2-explorer',
  note='Cross-subsystem interference only to the product depth bound.'),
 'C20': dict(
  text='All 164 NOP codes x 256 count bytes x 9 stack depths as single steps; compile/decompile of every (code, count); soft forks from a '
       'family of 5 predicate ops installed with add_soft_fork at 7 (quick) / 164 free codes x every control program containing the forked '
       'instruction x 4 witnesses, plain verdict computed on the same bytes before installation.',
  design_ref='DESIGN.md 4/C20', technique=T_ENUM.format('(code, count, depth) grids and fork-op x program products', 'the NOP semantics and an upgraded/plain differential'),
  note='Registries are restored in place after each fork case; fork counts 0,1,2.'),
 'C04': dict(
  text='All binary tree shapes with 2..8 leaves (626 shapes; thorough 9 leaves) built with the real tree classes, every leaf: honest '
       'proof runs exactly that leaf (recording contract) with its own verdict; every corruption (bit 0 of every script byte, sibling hash '
       'bits at every level, node scripts, all level permutations, dropped levels, cross-leaf and foreign-tree proofs) for shapes up to 6/7 '
       'leaves must be rejected with an empty recorder; builders for every leaf count 1..9/24 incl. fillers; pack/unpack for every shape.',
  design_ref='DESIGN.md 4/C04', technique=T_ENUM.format('tree shapes x leaves x proof corruptions', 'an independent merkle model and a recording contract'),
  note='SHA-256 collision resistance assumed; merkle model recomputed independently of tools.py.'),
 'C05': dict(
  text='Root identity for seeds x scripts covering all 32 clamp-bit patterns (reference Ed25519); key path for all 255 builder flags x '
       '{00, ff, flag, ~flag} x sigfield sets, all 512 signature and 256 root bit flips; script path with every byte of script and key '
       'flipped, other keys/scripts, point-subtraction attack (recorder proves nothing ran); native == non-native for the C01 adversarial '
       'witness family x 4 tails.',
  design_ref='DESIGN.md 4/C05', technique=T_ENUM.format('seed/script/flag/corruption products', 'reference Ed25519 arithmetic and a recording contract'),
  note='Witnesses that redefine function 0 or spend call budget are excluded from native/non-native equivalence (counted).'),
 'C13': dict(
  text='Complete cross product of builder-made witness descriptors x lock descriptors over all seven builder families, keys A/B/C, '
       'flag/allowed pairs, sigfield sets and contents, committed/surrogate scripts, 3 verifier contexts; every byte of positive witnesses '
       'perturbed; two oracles (statement-level predicate, reference interpreter).',
  design_ref='DESIGN.md 4/C13', technique=T_ENUM.format('the witness x lock cross product', 'a descriptor predicate and a reference interpreter'),
  note='Data independence over key/field contents (DESIGN 2.6).'),
 'C14': dict(
  text='Single lock: full product of window position (7) x may-delegate x certificate signer x clock slack 58..61 x final signer x 5 '
       'flag pairs, all certificate byte flips. Chain lock: lengths 1..3/6, every single-link deviation at every position, all pairs for '
       'length <=3, cross-chain splices, all orders, all marker patterns, prefix chains. Certificate pack/unpack over 13x13 boundary values.',
  design_ref='DESIGN.md 4/C14', technique=T_ENUM.format('per-link setting products', 'a delegation model and a reference interpreter'),
  note='Virtual clock; default slack threshold 60 only (run_auth_scripts cannot change it).'),
 'C15': dict(
  text='Six lock kinds x signers x preimage choices x timeouts {0,1,86400} x t=deadline-1..+1 x t-now=59..61 (clock set to T0 at build time '
       'and moved before the run); preimage lengths 1..64, SHAKE digest sizes, PTLC tweak scalars, flag/allowed pairs with covered/excluded '
       'field changes, all 5x6 witness/lock cross pairings; model from the statement + reference interpreter.',
  design_ref='DESIGN.md 4/C15', technique=T_ENUM.format('the (path, key, preimage, time) grid', 'an HTLC/PTLC model and a reference interpreter'),
  note='Tweak scalars are valid 255-bit scalars.'),
 'C18': dict(
  text='Setup: seeds x chain lengths 2..8/10 x every hop re-derived with reference arithmetic, own/substituted views through check_setup. '
       'Release: explicit-state search to a fixpoint over sets of opened hops; every (target hop, opened hop, y) triple incl. second-chain '
       'scalars and the final key on every hop is executed on the real builders (release_left_amhl_lock, decrypt_adapter, run_auth_scripts); '
       'with/without refund keys, two flag values, per-hop sigfields rotating over all eight fields.',
  design_ref='DESIGN.md 4/C18', technique='explicit-state search over release histories on the real builders against the AMHL model',
  engine='E2-explorer',
  note='Discrete-log hardness for the rejection direction.'),
}
NOT_YET = {p: 'check not built yet in this session (planned, see DESIGN.md section 4)' for p in ALL if p not in CLAIMED}
