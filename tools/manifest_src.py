ALL = ['C%02d' % i for i in range(1, 21)]
CLAIMED = {
 'C10': dict(
  text='Every value of complete structured families (all ints in [-2^17,2^17], all +-(2^k+d) up to 2^16384, '
       'all two-bit and binade-edge integers, every 1-2 byte string, every float32 exponent x sparse/dense '
       'mantissa family; thorough: all 2^32 float32 patterns) is pushed through the real codec and integer '
       'instructions and compared with an independent decoder. Exhaustive inside the families, nothing sampled.',
  design_ref='DESIGN.md section 4 / C10',
  note='Trusts Python int.from_bytes/math.ldexp as the independent codec; values outside the enumerated '
       'families rely on the structure of the encoder (bit-count arithmetic only misbehaves at binade edges).',
  technique='bounded exhaustive enumeration of the input space on the real code with a reference codec'),
}
NOT_YET = {p: 'check not built yet in this session (planned, see DESIGN.md section 4)' for p in ALL if p not in CLAIMED}
