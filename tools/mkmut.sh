#!/bin/sh
# tools/mkmut.sh <name> <file-relative-to-repo> <python-expr transforming s>   -> mutants/<name>.patch
# e.g. tools/mkmut.sh C02-1 tapescript/functions.py "s.replace('a','b',1)"
D=$(mktemp -d /root/scratch/mk.XXXXXX)
mkdir -p "$D/a/$(dirname "$2")" "$D/b/$(dirname "$2")"
cp "/repo/$2" "$D/a/$2"
/venv/bin/python - "$D/a/$2" "$D/b/$2" "$3" <<'PY'
import sys
s = open(sys.argv[1]).read()
t = eval(sys.argv[3])
assert t != s, 'mutation did not change the file'
open(sys.argv[2], 'w').write(t)
PY
[ $? = 0 ] || { rm -rf "$D"; exit 1; }
(cd "$D" && diff -u "a/$2" "b/$2" > "/verif/mutants/$1.patch")
rm -rf "$D"; echo "wrote mutants/$1.patch"
