#!/bin/sh
# tools/run_all.sh [quick|thorough] [ids...]  - runs checks sequentially, one summary line each
TIER=${1:-quick}; shift
IDS="${*:-C01 C02 C03 C04 C05 C06 C07 C08 C09 C10 C11 C12 C13 C14 C15 C16 C17 C18 C19 C20}"
cd "$(dirname "$0")/.."
FAILED=0
for id in $IDS; do
  s=$(date +%s)
  ./check $id --tier $TIER > /tmp/run_all.$id.log 2>&1; rc=$?
  e=$(date +%s)
  echo "$id tier=$TIER exit=$rc wall=$((e-s))s $(grep -c '^VIOLATION' /tmp/run_all.$id.log) violations; $(tail -1 /tmp/run_all.$id.log | cut -c1-160)"
  if [ $rc -ne 0 ]; then FAILED=1; grep -A2 '^VIOLATION\|HARNESS' /tmp/run_all.$id.log | head -12 | cut -c1-300; fi
done
exit $FAILED
