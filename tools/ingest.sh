#!/bin/sh
# tools/ingest.sh <PID> <A|B> [check ids to run, default PID]
# Confirms an agent-made change myself in a scratch copy (tests still pass, demo fails with / passes without),
# runs my quick check(s) against it, and files it under /verif/seeded/<PID>-<A|B>/.
SRCID=$1; V=$2; shift 2; PID=$(echo "$SRCID" | sed "s/r[0-9]*$//"); CHECKS="${*:-$PID}"
OUTV=$V; case "$SRCID" in *r2) [ "$V" = A ] && OUTV=C || OUTV=D;; *r3) [ "$V" = A ] && OUTV=E || OUTV=F;; *r4) [ "$V" = A ] && OUTV=G || OUTV=H;; *r5) [ "$V" = A ] && OUTV=I || OUTV=J;; *r6) [ "$V" = A ] && OUTV=K || OUTV=L;; *r7) [ "$V" = A ] && OUTV=M || OUTV=N;; *r8) [ "$V" = A ] && OUTV=O || OUTV=P;; *r9) [ "$V" = A ] && OUTV=Q || OUTV=R;; *r10) [ "$V" = A ] && OUTV=S || OUTV=T;; *r11) [ "$V" = A ] && OUTV=U || OUTV=V;; *r12) [ "$V" = A ] && OUTV=W || OUTV=X;;  *r13) [ "$V" = A ] && OUTV=Y || OUTV=Z;; esac
SRC=/root/scratch/agent_out/$SRCID/$V; [ -d "$SRC" ] || SRC=/tmp/wt-$PID/_out/$V
[ -f "$SRC/patch.diff" ] || { echo "no $SRC/patch.diff"; exit 1; }
D=$(mktemp -d /root/scratch/ing.XXXXXX); mkdir -p "$D/src" "$D/out"
(cd /repo && tar --exclude=.git -cf - .) | tar -xf - -C "$D/src"
/venv/bin/python "$SRC/demo.py" "$D/src" >"$D/demo_clean.log" 2>&1; DC=$?
(cd "$D/src" && git apply --whitespace=nowarn "$SRC/patch.diff") || { echo "PATCH-FAILED"; rm -rf "$D"; exit 3; }
/venv/bin/python "$SRC/demo.py" "$D/src" >"$D/demo_mut.log" 2>&1; DM=$?
T=$(cd "$D/src" && /venv/bin/python -m pytest -q -p no:cacheprovider --timeout=900 2>&1 | tail -8)
TL=$(echo "$T" | tail -1)
NEWFAIL=$(echo "$T" | grep -E "^FAILED" | grep -v -E "test_add_opcode_parsing_handlers_e2e|test_add_soft_fork" | wc -l)
RES=""
for id in $CHECKS; do
  TAPESCRIPT_SRC="$D/src" VERIF_OUT="$D/out" /verif/check "$id" > "$D/out/$id.log" 2>&1; rc=$?
  RES="$RES $id:exit=$rc"
  grep -m2 'signature=' "$D/out/$id.log" | cut -c1-220
done
echo "INGEST $PID-$OUTV demo_clean=$DC demo_mut=$DM tests='$TL' newfail=$NEWFAIL checks:$RES"
if [ $DC = 0 ] && [ $DM != 0 ] && [ "$NEWFAIL" = 0 ]; then
  O=/verif/seeded/$PID-$OUTV; mkdir -p "$O"; cp "$SRC/patch.diff" "$SRC/demo.py" "$O/"; [ -f "$SRC/notes.md" ] && cp "$SRC/notes.md" "$O/"
  /venv/bin/python - "$O" "$PID" "$OUTV" "$TL" "$DC" "$DM" "$RES" <<'PY'
import json, sys, os
o, pid, v, tl, dc, dm, res = sys.argv[1:8]
notes = open(o + '/notes.md').read() if os.path.exists(o + '/notes.md') else ''
meta = {'id': f'{pid}-{v}', 'breaks_property': pid, 'origin': 'independent sub-agent given only the property text and a scratch worktree',
        'needs_to_manifest': notes.strip().split('\n\n')[0][:1200],
        'confirmed_by_me': {'pinned_test_suite_with_change': tl, 'demo_exit_on_pinned_tree': int(dc), 'demo_exit_with_change': int(dm),
                            'how': 'tools/ingest.sh: scratch copy of /repo under /root/scratch, git apply patch.diff, pytest, demo.py, ./check with TAPESCRIPT_SRC'},
        'my_checks': {r.split(':')[0]: r.split(':')[1] for r in res.split()}}
json.dump(meta, open(o + '/meta.json', 'w'), indent=1)
PY
  echo "kept $O"
else
  echo "NOT KEPT (demo/test conditions not met)"; tail -5 "$D/demo_clean.log" "$D/demo_mut.log"
fi
rm -rf "$D"
