#!/bin/sh
# tools/mut.sh [--tests] <patch.diff> <check ids...>
# Applies a patch to a scratch copy of /repo, optionally runs the pinned test-suite there,
# runs the named quick checks against the copy (TAPESCRIPT_SRC), prints one line per check
# and removes the copy. Never touches /repo or /verif/evidence.
TESTS=0
[ "$1" = "--tests" ] && { TESTS=1; shift; }
PATCH="$(readlink -f "$1")"; shift
TIER="${VERIF_TIER:-quick}"
D=$(mktemp -d /root/scratch/mut.XXXXXX)
mkdir -p "$D/src" "$D/out"
(cd /repo && tar --exclude=.git -cf - .) | tar -xf - -C "$D/src"
if ! (cd "$D/src" && git apply --whitespace=nowarn "$PATCH" 2>"$D/apply.err" || patch -p1 -s < "$PATCH" 2>>"$D/apply.err"); then
  echo "PATCH-FAILED $PATCH"; cat "$D/apply.err"; rm -rf "$D"; exit 3
fi
if [ $TESTS = 1 ]; then
  (cd "$D/src" && /venv/bin/python -m pytest -q -p no:cacheprovider --timeout=900 2>&1 | tail -8) > "$D/test.out"
  echo "TESTS: $(tail -1 "$D/test.out")"
  grep -E "^FAILED" "$D/test.out" | grep -v -E "test_add_opcode_parsing_handlers_e2e|test_add_soft_fork" && echo "TESTS-BROKEN"
fi
for id in "$@"; do
  TAPESCRIPT_SRC="$D/src" VERIF_OUT="$D/out" VERIF_TIER="$TIER" /verif/check "$id" > "$D/out/$id.log" 2>&1
  rc=$?
  echo "MUT $(basename "$PATCH") $id exit=$rc $(grep -c '^VIOLATION' "$D/out/$id.log") violation-lines; $(grep -m1 'signature=' "$D/out/$id.log" | cut -c1-200)"
  [ -n "$MUT_VERBOSE" ] && cat "$D/out/$id.log"
done
[ -n "$MUT_KEEP" ] && mkdir -p "$MUT_KEEP" && cp -r "$D/out/replays/." "$MUT_KEEP/" 2>/dev/null
rm -rf "$D"
