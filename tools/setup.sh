#!/bin/sh
# offline setup: nothing to build (pure Python); verify the interpreter, the repo import and the
# reference-model self-tests.
set -e
cd "$(dirname "$0")/.."
mkdir -p evidence replays
/venv/bin/python -B -c "import sys; sys.path.insert(0,'.'); from mc import env; print('tapescript from', env.SRC)"
if [ -f mc/selftest.py ]; then PYTHONHASHSEED=0 /venv/bin/python -B mc/selftest.py; fi
