"""prints the prompt for a mutation sub-agent: python tools/agent_prompt.py C02"""
import json, sys
pid = sys.argv[1]
props = {json.loads(l)['id']: json.loads(l) for l in open('/verif/properties.jsonl')}
p = props[pid]
wt = f'/tmp/wt-{pid}'
print(f"""You are helping test a verification effort for the open-source Python library k98kurz/tapescript (a Bitcoin-script-like bytecode VM with compiler, decompiler, Ed25519 ops and lock/witness builder tools). You have your own scratch git worktree of the repository at {wt} (detached HEAD at the pinned commit). Work ONLY inside {wt}. Do not read, list or touch /verif or /repo at all (they are off limits for this task), and do not create other worktrees.

Here is a semantic property of the library that should hold:

TITLE: {p['title']}
STATEMENT: {p['statement']}
QUANTIFIED OVER: {p['quantifier']['text']}

Your job: produce TWO different, independent, realistic code changes ("A" and "B") to the library source under {wt}/tapescript/ such that each change, applied alone to the pinned tree:
 1. still imports/compiles,
 2. still passes the existing test suite exactly as the pinned tree does. Run it with:  cd {wt} && /venv/bin/python -m pytest -q -p no:cacheprovider --timeout=900   -- on the pinned tree this gives "3 failed, 267 passed" (the 3 failures test_add_opcode_parsing_handlers_e2e, test_add_soft_fork_e2e, test_add_soft_fork_merklized_script_e2e are pre-existing and expected); with your change the same 267 must pass and no others may fail,
 3. BREAKS the property above (makes the library violate the statement for at least one input/program/history in its quantifier).

Prefer subtle changes that need something specific to manifest: an unusual input or boundary value, a particular multi-step sequence, a specific flag/operand/bit pattern, a particular nesting or ordering, or two cooperating edits that each look fine alone. Do NOT make changes that ordinary use would expose at once (e.g. breaking every signature check), and do not edit tests or docs. The change should look like a plausible bug a maintainer could introduce in a refactor (off-by-one, wrong mask, missed case, stale state, swapped operand, wrong default...). Keep each diff small (a few lines). A and B should touch different mechanisms if possible.

For each change produce, under {wt}/_out/A/ and {wt}/_out/B/ :
  - patch.diff : output of `git diff` for that change alone relative to the pinned commit (must apply with `git apply` to a clean checkout). Make sure the worktree is restored (git checkout -- tapescript) between A and B so each diff is independent.
  - demo.py : a small standalone program that inserts the repo root as sys.path[0] from argv[1] (i.e. `import sys; sys.path.insert(0, sys.argv[1]); import tapescript`), exercises the library, and exits 0 if the property holds on what it tries and exits 1 (printing what failed) if the property is violated. It must exit 1 on a tree with your change and exit 0 on the pinned tree. Run as: /venv/bin/python _out/A/demo.py {wt}
  - notes.md : 5-10 lines: what the change is, why it breaks the property, what specific input/sequence is needed to trigger it, and the exact commands you ran with their results (test suite result with the change; demo exit codes with and without the change).

Verify everything yourself before finishing: (a) with change applied: test suite still 267 passed / same 3 failed, demo exits 1; (b) with change reverted: demo exits 0. Leave the worktree clean of source edits at the end (git checkout -- tapescript), keeping only the _out directory. Python to use: /venv/bin/python (3.12, PyNaCl installed). There is no network. Finish with a short report listing the two changes and your verification results.""")
