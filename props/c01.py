"""C01 - authorization verdict is exact; a witness cannot truncate or skip the lock.

Every enumerated list of 1..4 scripts is run through run_auth_scripts and judged by the reference
interpreter (ref.refvm): shared stack / byte-keyed cache / definitions, fresh control state per
script; verdict = every script completed without error and the stack is exactly [ff].
"""
import itertools

from mc import env, spaces
from mc.diff import ref_auth, DEFAULT_LIMITS
from mc.run import Block

F = env.functions

# ---------------------------------------------------------------- locks
WRAPS = ('IFT', 'IFELSE_T', 'IFELSE_F2', 'TRY', 'EXCEPT', 'LOOP1', 'FUNC', 'EVAL')
DECISIVE = ('FAIL', 'VERIFYW', 'M_THEN_DROP', 'NONE')


def wrap(kind, body):
    if kind == 'IFELSE_F2':
        return ('IFELSE_F', (), body)
    if kind == 'IFELSE_T':
        return ('IFELSE_T', body, ())
    if kind == 'TRY':
        return ('TRY', body, ())
    if kind == 'EXCEPT':
        return ('TRY', (('FAIL',),), body)
    return (kind, body)


def decisive(d):
    if d == 'M_THEN_DROP':
        return (('M',), ('DROP',))
    if d == 'NONE':
        return ()
    return ((d,),)


def lock_programs():
    out = []
    for w in WRAPS:
        for d in DECISIVE:
            dd = decisive(d)
            out.append((wrap(w, ()),) + dd + (('T',),))            # construct before the decisive instruction
            out.append((wrap(w, dd),) + (('T',),))                 # around
            out.append(dd + (wrap(w, ()),) + (('T',),))            # after
            out.append(dd + (wrap(w, (('T',),)),))                 # the final push itself inside the construct
    # the lock's own explicit return, at top level and inside every construct
    out.append((('T',), ('RETURN',), ('FAIL',)))
    out.append((('RETURN',), ('T',)))
    for w in WRAPS:
        out.append((wrap(w, (('T',), ('RETURN',))), ('FAIL',)))
        out.append((wrap(w, (('RETURN',),)), ('T',)))
        out.append((('T',), wrap(w, (wrap('IFT', (('RETURN',),)),)), ('DROP',), ('FAIL',)))
    out.append((('T',),))
    out.append((('VERIFYW',), ('T',)))
    # locks that rely on state the documentation says is carried over: functions defined and cache
    # entries written by an earlier script (and locks that redefine them first)
    out.append((('CALL0',), ('T',)))
    out.append((('CALL1',), ('DROP',), ('T',)))
    out.append((('GETV',), ('DROP',), ('T',)))
    out.append((('DEF0', (('FAIL',),)), ('CALL0',), ('T',)))
    out.append((('DEF0', ()), ('CALL0',), ('T',)))
    out.append((('SETV',), ('GETV',), ('VERIFYW',), ('T',)))
    # forward references between the lock's own functions, and functions (re)defined after they were first used:
    # a function body calls whatever is defined under the handle when the call executes
    out.append((('DEF0', (('CALL1',),)), ('DEF1', (('FAIL',),)), ('CALL0',), ('T',)))
    out.append((('DEF0', (('CALL1',),)), ('DEF1', ()), ('CALL0',), ('T',)))
    out.append((('DEF1', ()), ('DEF0', (('CALL1',),)), ('DEF1', (('FAIL',),)), ('CALL0',), ('T',)))
    out.append((('DEF1', (('FAIL',),)), ('DEF0', (('CALL1',),)), ('DEF1', ()), ('CALL0',), ('T',)))
    out.append((('DEF0', (('IFT', (('CALL1',),)),)), ('DEF1', (('FAIL',),)), ('CALL0',), ('T',)))
    out.append((('DEF0', (('EVAL', (('CALL1',),)),)), ('DEF1', (('FAIL',),)), ('CALL0',), ('T',)))
    return list(dict.fromkeys(out))


LOCKS = lock_programs()
LOCK_BYTES = [spaces.render(l, 0x60) for l in LOCKS]
CALL_LOCK_BYTES = [spaces.render(l, 0x60) for l in LOCKS if 'CALL0' in repr(l) or 'CALL1' in repr(l)] + \
    [spaces.render(l, 0x60) for l in ((('SPEND',), ('T',)), (('SPEND',), ('SPEND',), ('T',)), (('EVAL', (('T',),)),))] + \
    [spaces.render((wrap(w, (('SPEND',),)), ('T',)), 0x60) for w in WRAPS] + \
    [spaces.render((wrap(w, (('EVAL', (('T',),)), ('DROP',))), ('T',)), 0x60) for w in WRAPS]

CACHES = [{}, {'sigfield1': b'abc'}, {b'k': [b'\x01']}, {'timestamp': 0}, {'returned': True}, {'returned': False},
          {b'returned': [b'\x01']}]
LIMITS = [(mi, ms, cl) for mi in (1, 2, 1024) for ms in (1, 1024) for cl in (1, 2, 128)] + \
    [(0, 1024, 128), (-1, 1024, 128), (1024, 0, 128), (1024, 1024, 0), (1024, 1024, -1)]


def run_impl(scripts, cache, limits):
    try:
        r = F.run_auth_scripts(list(scripts), dict(cache), stack_max_items=limits[0], stack_max_item_size=limits[1],
                               callstack_limit=limits[2])
        return r, None
    except BaseException as e:
        if isinstance(e, (KeyboardInterrupt, SystemExit, MemoryError)):
            raise
        return None, e


def split_cache(cache):
    ro = {k: v for k, v in cache.items() if type(k) is str}
    c0 = {k: v for k, v in cache.items() if type(k) is bytes}
    return ro, c0


def judge(ctx, scripts, cache, limits, sig):
    got, exc = run_impl(scripts, cache, limits)
    ctx.ran()
    ctx.trans(len(scripts))
    if exc is not None:
        ctx.violation({**sig, 'clause': 'never raises'}, f'scripts {[s.hex() for s in scripts]} cache {cache!r} limits {limits}: raised {exc!r}')
        return
    if type(got) is not bool:
        ctx.violation({**sig, 'clause': 'returns a bool'}, f'scripts {[s.hex() for s in scripts]}: {got!r}')
        return
    ro, c0 = split_cache(cache)
    want, e = ref_auth(scripts, ro=ro, limits=limits, cache0=c0)
    ctx.ran()
    if type(want) is tuple:
        ctx.unspec(want[1])
        return
    ctx.outcome('%s' % got)
    if want is not got:
        ctx.violation({**sig, 'clause': 'verdict', 'got': got},
                      f'scripts {[s.hex() for s in scripts]} cache {cache!r} limits {limits}: reference {want}, run_auth_scripts {got}')


# ---------------------------------------------------------------- blocks
def raw_single(ctx, first):
    n = 0
    for s in [first] + [first + bytes([b]) for b in range(256)]:
        if len(s) == 0:
            continue
        n += 1
        ctx.state(('raw1', s))
        judge(ctx, [s], {}, DEFAULT_LIMITS, {'family': 'raw single script'})
    ctx.evaluations += n - 1


def raw_pair(ctx, w):
    n = 0
    for l in [b''] + [bytes([b]) for b in range(256)]:
        n += 1
        ctx.state(('raw2', w, l))
        judge(ctx, [w, l], {}, DEFAULT_LIMITS, {'family': 'raw script pair'})
    ctx.evaluations += n - 1


RAW_ALPHA = [bytes([x]) for x in (0x00, 0x01, 0x02, 0x06, 0x20, 0x29, 0x2a, 0x2b, 0x2c, 0x2d, 0x30, 0x3d, 0x45, 0x33, 0x2e, 92, 255,
                                  0x03, 0x7f, 0x80)]


def raw_alpha_scripts():
    out = [b'']
    for a in RAW_ALPHA:
        out.append(a)
    for a in RAW_ALPHA:
        for b in RAW_ALPHA:
            out.append(a + b)
    return out


def raw_alpha_pair(ctx, w):
    n = 0
    for l in raw_alpha_scripts():
        n += 1
        ctx.state(('rawA', w, l))
        judge(ctx, [w, l], {}, DEFAULT_LIMITS, {'family': 'raw script pair'})
    ctx.evaluations += n - 1


def wit_lock(ctx, w):
    wb = spaces.render(w)
    n = 0
    for lb in LOCK_BYTES:
        n += 1
        ctx.state(('wl', wb, lb))
        judge(ctx, [wb, lb], {}, DEFAULT_LIMITS, {'family': 'witness x lock'})
    ctx.evaluations += n - 1


def malformed_scripts(ctx, case):
    """truncated / perturbed bytecode as the only script, as the lock after a witness that leaves a single
    true, and as the witness before a lock that only needs a true: a malformed script never authorizes"""
    p, kind, pos, code = case
    ctx.state(('mal', code))
    sig = {'family': 'malformed scripts', 'kind': kind.split('+')[0]}
    judge(ctx, [code], {}, DEFAULT_LIMITS, sig)
    judge(ctx, [b'\x01', code], {}, DEFAULT_LIMITS, sig)
    judge(ctx, [code, b'\x01'], {}, DEFAULT_LIMITS, sig)
    ctx.evaluations += 2


def host_stack_cases():
    """scripts that exhaust the host interpreter's stack before any tapescript limit: deep static nesting and
    recursion routed through several nested bodies per call level"""
    out = []
    T_, IF_ = b'\x01', b'\x2b'
    for depth in (50, 200, 400, 600, 1000, 3000):
        body = b'\x01'
        for _ in range(depth):
            if len(body) > 65000:
                break
            body = T_ + IF_ + len(body).to_bytes(2, 'big') + body
        out.append(('nested IF x%d' % depth, body))
    for k in (1, 2, 3, 4, 6):
        inner = b'\x2a\x00'
        for _ in range(k):
            inner = T_ + IF_ + len(inner).to_bytes(2, 'big') + inner
        out.append(('recursion through %d nested IF' % k, b'\x29\x00' + len(inner).to_bytes(2, 'big') + inner + b'\x2a\x00'))
        ev = b'\x1d\x2d'                       # DUP EVAL
        for _ in range(k):
            ev = T_ + IF_ + len(ev).to_bytes(2, 'big') + ev
        out.append(('self-EVAL through %d nested IF' % k, b'\x03' + bytes([len(ev)]) + ev + b'\x1d\x2d'))
    return out


def host_stack(ctx, case):
    """whatever happens inside (including the host's RecursionError), run_auth_scripts returns a bool and does not raise"""
    name, script = case
    n = 0
    for scripts in ([script], [b'\x01', script], [script, b'\x01']):
        for limits in (DEFAULT_LIMITS, (1024, 1024, 5000)):
            n += 1
            ctx.state(('host', name, len(scripts), limits))
            got, exc = run_impl(scripts, {}, limits)
            ctx.ran()
            ctx.trans(len(scripts))
            ctx.outcome('host:%s' % (got if exc is None else type(exc).__name__))
            if exc is not None:
                ctx.violation({'family': 'host stack exhaustion', 'clause': 'never raises', 'exc': type(exc).__name__},
                              f'{name} as {len(scripts)} script(s), limits {limits}: raised {exc!r}')
            elif type(got) is not bool:
                ctx.violation({'family': 'host stack exhaustion', 'clause': 'returns a bool'}, f'{name}: {got!r}')
    ctx.evaluations += n - 1


def backward_jump_cases():
    """a length operand with its top bit set, sized to land on every earlier offset of the script if it were read as a
    negative number; the prefix would then finish the script with a single true. Every such script is malformed."""
    out = []
    OPS = {'IF': b'\x2b', 'IF_ELSE': b'\x2c', 'TRY_EXCEPT': b'\x3d', 'LOOP': b'\x45', 'DEF': b'\x29\x00', 'PUSH2': b'\x04', 'EVAL-PUSH2': b'\x04'}
    for j in range(0, 4):
        body = b'\x06' * j + b'\x30'                       # POP0 x j, RETURN
        prefix = b'\x33' + b'\x2b' + len(body).to_bytes(2, 'big') + body      # DEPTH IF { ... }
        for a in range(0, 3):
            for cond in (b'\x01', b'\x00', b''):
                head = prefix + b'\x01' * a + cond
                for name, opb in OPS.items():
                    for k in range(1, len(head) + len(opb) + 3):
                        ln = (0x10000 - k).to_bytes(2, 'big')
                        for tail in (b'', b'\x01'):
                            out.append(head + opb + ln + tail)
    return list(dict.fromkeys(out))


def backward_jump(ctx, shard):
    cases = backward_jump_cases()
    n = 0
    for script in cases[shard::64]:
        n += 1
        ctx.state(('bj', script))
        sig = {'family': 'length operand with the top bit set'}
        judge(ctx, [script], {}, DEFAULT_LIMITS, sig)
        judge(ctx, [b'\x01', script], {}, DEFAULT_LIMITS, sig)
        judge(ctx, [script, b''], {}, DEFAULT_LIMITS, sig)
    ctx.evaluations += max(3 * n - 1, 0)


def rec_abort_cases():
    """locks whose function calls itself under a TRY, driven by witness items: an inner activation that fails must not
    disturb the outer one (every witness of <= 5 items over {00, 01})"""
    b2 = lambda c: len(c).to_bytes(2, 'big') + c
    IF_, TRY_, DEF0, CALL0, VERIFY, T_ = b'\x2b', b'\x3d', b'\x29\x00', b'\x2a\x00', b'\x20', b'\x01'
    bodies = [
        TRY_ + b2(IF_ + b2(CALL0)) + b2(b'') + VERIFY + VERIFY + T_,
        TRY_ + b2(IF_ + b2(CALL0)) + b2(b'') + VERIFY + T_,
        TRY_ + b2(IF_ + b2(CALL0) + VERIFY) + b2(b'') + VERIFY + T_,
        IF_ + b2(TRY_ + b2(CALL0) + b2(b'')) + VERIFY + T_,
        TRY_ + b2(IF_ + b2(CALL0)) + b2(VERIFY) + VERIFY + T_,
    ]
    locks = [DEF0 + b2(body) + CALL0 for body in bodies]
    wits = [b'']
    for n in range(1, 6):
        for bits in itertools.product((b'\x00', b'\x01'), repeat=n):
            wits.append(b''.join(bits))
    return [(w, l) for l in locks for w in wits]


def rec_abort(ctx, shard):
    cases = rec_abort_cases()
    n = 0
    for w, l in cases[shard::16]:
        n += 1
        ctx.state(('rec-abort', w, l))
        sig = {'family': 'recursive lock with TRY, witness-driven'}
        judge(ctx, [w, l] if w else [l], {}, DEFAULT_LIMITS, sig)
        judge(ctx, [w + l], {}, DEFAULT_LIMITS, sig)
    ctx.evaluations += max(2 * n - 1, 0)


def wit_lock_cfg(ctx, w):
    """small witnesses x locks x every initial cache x every limit triple"""
    wb = spaces.render(w)
    n = 0
    for lb in LOCK_BYTES:
        for ci, cache in enumerate(CACHES):
            n += 1
            ctx.state(('wlc', wb, lb, ci))
            judge(ctx, [wb, lb], cache, DEFAULT_LIMITS, {'family': 'witness x lock x initial cache'})
        for lim in LIMITS:
            n += 1
            ctx.state(('wll', wb, lb, lim))
            judge(ctx, [wb, lb], {}, lim, {'family': 'witness x lock x limits'})
    ctx.evaluations += n - 1


def multi(ctx, ws):
    wbs = [spaces.render(w, 0x10 + 0x10 * i) for i, w in enumerate(ws)]
    n = 0
    for lb in LOCK_BYTES:
        n += 1
        ctx.state(('multi', tuple(wbs), lb))
        judge(ctx, wbs + [lb], {}, DEFAULT_LIMITS, {'family': 'lists of %d scripts' % (len(ws) + 1)})
    # the cumulative call count of the documents: calls made at the top level of the middle scripts count against the lock
    if any(s[0] in ('CALL0', 'CALL1', 'SPEND', 'DEF0', 'DEF1') for w in ws for s in w):
        for lb in CALL_LOCK_BYTES:
            for cl in (1, 2, 3):
                n += 1
                ctx.state(('multi', tuple(wbs), lb, cl))
                judge(ctx, wbs + [lb], {}, (1024, 1024, cl), {'family': 'lists of %d scripts under a call-stack limit' % (len(ws) + 1)})
    ctx.evaluations += n - 1


def script_objects(ctx, w):
    """ScriptProtocol objects (tools.Script) instead of bytes, in every position, give the same verdict"""
    wb = spaces.render(w)
    S = env.tools.Script
    n = 0
    for lb in LOCK_BYTES[::7]:
        base, _ = run_impl([wb, lb], {}, DEFAULT_LIMITS)
        for mix in ((True, True), (True, False), (False, True)):
            n += 1
            scripts = [S('', wb) if mix[0] else wb, S('ignored source', lb) if mix[1] else lb]
            got, exc = run_impl(scripts, {}, DEFAULT_LIMITS)
            ctx.ran()
            ctx.trans(2)
            ctx.state(('obj', wb, lb, mix))
            if exc is not None or got is not base:
                ctx.violation({'family': 'Script objects', 'clause': 'same verdict as the same bytes'},
                              f'scripts {wb.hex()} {lb.hex()} as objects {mix}: {got!r} {exc!r} vs bytes {base!r}')
    ctx.evaluations += max(n - 1, 0)


def deprecated(ctx, w):
    """run_auth_script (deprecated single-script form) agrees and never raises"""
    import warnings
    wb = spaces.render(w) + b'\x01'
    with warnings.catch_warnings():
        warnings.simplefilter('ignore')
        try:
            got = F.run_auth_script(wb)
        except BaseException as e:
            ctx.violation({'family': 'run_auth_script', 'clause': 'never raises'}, f'{wb.hex()}: {e!r}')
            return
    ctx.ran()
    want, e = ref_auth([wb])
    if type(want) is tuple:
        ctx.unspec(want[1])
        return
    if want is not got:
        ctx.violation({'family': 'run_auth_script', 'clause': 'verdict'}, f'{wb.hex()}: reference {want}, got {got}')


# ---------------------------------------------------------------- call histories through the default arguments
def _hist_alphabet():
    from ref.optable import op, push
    P = lambda b: push(b)
    blk = lambda b: len(b).to_bytes(2, 'big') + b
    wk = op('TRUE') + op('WRITE_CACHE') + b'\x01k\x01'
    first = {
        'writes cache key k': [wk + op('TRUE')],
        'writes k then fails': [wk + op('FALSE') + op('VERIFY')],
        'defines function 0': [op('DEF') + b'\x00' + blk(op('TRUE')) + op('TRUE')],
        'leaves an error record': [op('TRY_EXCEPT') + blk(op('FALSE') + op('VERIFY')) + blk(b'') + op('TRUE')],
        'unsets flag 1 and returns': [op('UNSET_FLAG') + b'\x01\x01' + op('TRUE') + op('RETURN')],
        'two scripts sharing k': [wk, op('READ_CACHE') + b'\x01k'],
        'leaves two items': [op('TRUE') + op('TRUE')],
    }
    second = {
        'lock reads k': [op('TRUE') + op('POP0'), op('READ_CACHE') + b'\x01k'],
        'lock counts k': [P(b'w') + op('POP0'), op('READ_CACHE_SIZE') + b'\x01k' + P(b'\x01') + op('EQUAL')],
        'lock calls function 0': [op('TRUE') + op('POP0'), op('CALL') + b'\x00'],
        'lock reads the error record': [op('TRUE') + op('POP0'), op('READ_CACHE_SIZE') + b'\x01E' + P(b'\x00') + op('EQUAL') + op('NOT')],
        'lock derives a scalar and looks for x': [P(b'\x11' * 32) + op('DERIVE_SCALAR') + op('POP0'),
                                                   op('READ_CACHE_SIZE') + b'\x01x' + P(b'\x01') + op('EQUAL')],
        'plain true': [op('TRUE')],
        'size of timestamp entry': [op('TRUE') + op('POP0'), op('READ_CACHE_SIZE') + b'\x01k' + P(b'\x00') + op('EQUAL')],
    }
    return first, second


HIST_FORMS = ('default arguments', 'one empty dict passed to both calls', 'run_script default then run_auth_scripts default',
              'second call twice')


def call_history(ctx, case):
    """two calls in one process without a cache argument (or with one reused empty dict): the second verdict is the one the
    second call has on its own"""
    fname, sname, form = case
    first, second = _hist_alphabet()
    a, b = first[fname], second[sname]
    want, _ = ref_auth(b)
    shared = {}
    try:
        if form == 'default arguments':
            try:
                F.run_auth_scripts(list(a))
            except BaseException:
                pass
            v = F.run_auth_scripts(list(b))
        elif form == 'one empty dict passed to both calls':
            try:
                F.run_auth_scripts(list(a), shared)
            except BaseException:
                pass
            v = F.run_auth_scripts(list(b), shared)
        elif form == 'run_script default then run_auth_scripts default':
            try:
                F.run_script(b''.join(a))
            except BaseException:
                pass
            v = F.run_auth_scripts(list(b))
        else:
            F.run_auth_scripts(list(b))
            v = F.run_auth_scripts(list(b))
    except BaseException as e:
        v = e
    ctx.ran(3)
    ctx.trans(2)
    ctx.state(('hist', fname, sname, form))
    ctx.outcome('history:%s' % (v if type(v) is bool else 'raised'))
    if type(want) is bool and v is not want:
        ctx.violation({'space': 'call histories', 'clause': 'the verdict does not depend on earlier calls', 'form': form},
                      f'first call: {fname}; second call: {sname}: verdict {v!r}, on its own {want}')
    if shared:
        ctx.violation({'space': 'call histories', 'clause': 'the caller\'s cache dict is left as it was', 'form': form},
                      f'first call: {fname}; second call: {sname}: the empty dict passed in now holds {sorted(map(repr, shared))}')


def blocks(tier, seed):
    q = tier == 'quick'
    wn = 2 if q else 3
    small = list(spaces.progs_upto(1, 'wit'))
    nmal = 2 if q else 3
    bl = [
        Block('call_histories_default_arguments', [(f, s_, fm) for f in _hist_alphabet()[0] for s_ in _hist_alphabet()[1] for fm in HIST_FORMS],
              call_history, 'two calls in one process x 7 first calls x 7 second calls x 4 ways of not passing a cache', nshards=16),
        Block('malformed_scripts', lambda s, n: spaces.malformed(nmal, 'full', s, n), malformed_scripts,
              'every byte-prefix and single-byte perturbation of every full-grammar program with <= %d nodes, alone / as lock / as witness' % nmal,
              nshards=64 if q else 256),
        Block('host_stack_exhaustion', host_stack_cases(), host_stack,
              'static IF nesting 50..3000 deep and CALL / self-EVAL recursion through 1..6 nested IF bodies, default and raised '
              'call-stack limit, alone / as lock / as witness', nshards=16),
        Block('recursion_abort_locks', list(range(16)), rec_abort,
              '5 self-calling locks with TRY x every witness of <= 5 items over {00, 01} (%d pairs), as two scripts and concatenated'
              % len(rec_abort_cases()), nshards=16),
        Block('backward_jumps', list(range(64)), backward_jump,
              '%d scripts: DEPTH IF { POP0^j RETURN } TRUE^a cond, then IF / IF_ELSE / TRY / LOOP / DEF / PUSH2 with length 0x10000 - k for '
              'every k up to the offset of the operand; alone / as lock / as witness' % len(backward_jump_cases()), nshards=64, backstop=60),
        Block('raw_single_len<=2', [b''] + [bytes([b]) for b in range(256)], raw_single,
              'every single script of length 1..2 over all byte values', nshards=64),
        Block('raw_pairs_len<=1', [b''] + [bytes([b]) for b in range(256)], raw_pair,
              'every pair [w, l] with |w|,|l| <= 1 over all byte values', nshards=64),
        Block('witness_x_lock', lambda s, n: spaces.progs_upto(wn, 'wit', s, n), wit_lock,
              'every witness of the adversarial grammar with <= %d nodes x %d lock skeletons' % (wn, len(LOCKS)), nshards=64),
        Block('witness_x_lock_x_config', small, wit_lock_cfg,
              '<=1-node witnesses x locks x %d initial caches x %d limit triples' % (len(CACHES), len(LIMITS)), nshards=len(small)),
        Block('three_scripts', list(itertools.product(small, repeat=2)), multi, '[w1, w2, lock]', nshards=64),
        Block('script_objects', lambda s, n: spaces.progs_upto(2, 'wit', s, n), script_objects,
              'tools.Script objects in place of bytes in every position', nshards=16),
        Block('deprecated_run_auth_script', lambda s, n: spaces.progs_upto(2, 'wit', s, n), deprecated,
              'run_auth_script on <=2 node programs', nshards=16),
    ]
    if not q:
        bl.append(Block('raw_pairs_alphabet_len<=2', raw_alpha_scripts(), raw_alpha_pair,
                        'every pair with |w|,|l| <= 2 over the control-flow byte alphabet', nshards=64))
        bl.append(Block('four_scripts', list(itertools.product(small, repeat=3)), multi, '[w1, w2, w3, lock]', nshards=128))
    return bl


def meta(tier, seed):
    q = tier == 'quick'
    return dict(
        rule='complete families of script lists (raw bytes; adversarial witness grammar x lock skeletons; 3/4 script lists; initial '
             'caches; limit triples incl. degenerate 0/-1) run through run_auth_scripts; verdict judged by ref.refvm',
        states_meaning='distinct (script list, initial cache, limits) inputs; transitions = scripts executed',
        bounds={'witness_nodes': 2 if q else 3, 'locks': len(LOCKS), 'caches': len(CACHES), 'limit_triples': len(LIMITS)},
        assumptions=['reference semantics as in C06 (ref/refvm.py); cumulative call-budget band is unspecified',
                     'RETURN inside a LOOP body: "ends the loop" and "ends the script" both accepted'],
    )
