"""C11 - the compiler emits exactly the instructions written, in the documented encoding.

Abstract programs x spelling vectors are enumerated completely and rendered to source by
ref.refasm; whenever compile_script accepts a source its output must equal the reference
assembler's bytes.  Un-encodable sources must be rejected with an error.
"""
import itertools

from mc import env, spaces
from mc.run import Block
from ref import refasm
from ref.refasm import Style, AsmError
from ref.optable import NAMES as OPNAMES

C = env.parsing.compile_script
ScriptCls = env.tools.Script
ALIASES = refasm.documented_aliases(env.SRC + '/docs.md')


def compile_(src):
    try:
        return C(src), None
    except BaseException as e:
        if isinstance(e, (KeyboardInterrupt, SystemExit, MemoryError, RecursionError)):
            raise
        return None, e


def judge(ctx, prog, src, sig, expect=None):
    """expect: bytes (reference encoding) or None when the reference cannot encode (must be rejected)"""
    got, err = compile_(src)
    ctx.ran()
    ctx.trans()
    if expect is None:
        ctx.outcome('unencodable:' + ('rejected' if err is not None else 'ACCEPTED'))
        if err is None:
            ctx.violation({**sig, 'clause': 'un-encodable source must be rejected'}, f'source {src!r} compiled to {got.hex()[:200]}')
        return got, err
    if err is not None:
        ctx.outcome('rejected')
        ctx.count('rejected:' + sig.get('family', ''))
        return got, err
    ctx.outcome('accepted')
    if got != expect:
        ctx.violation({**sig, 'clause': 'bytes differ from the documented encoding'},
                      f'source {src[:600]!r}: compiler {got.hex()[:300]} reference {expect.hex()[:300]}')
    return got, err


# ---------------------------------------------------------------- block A: every instruction x operands x spellings
D8 = [('d', n) for n in (-128, -1, 0, 1, 127)]
X8 = [('x', bytes([b])) for b in (0, 1, 0x7f, 0x80, 0xff)]
U8D = [('d', n) for n in (0, 1, 127, 128, 255)]


def operand_choices(name):
    kd = refasm.kind(name)
    if kd == 'none':
        return [[]]
    if kd == 'byte1':
        return [[v] for v in D8 + X8]
    if kd == 'lv1':
        vals = [('d', n) for n in (0, 1, -1, 127, 128, -129, 255, 256, 2 ** 31, -(2 ** 31))] + \
               [('x', bytes(range(1, 1 + n)) if n < 200 else b'\xab' * n) for n in (0, 1, 2, 127, 128, 255)] + [('x', b'\x00\x05'), ('x', b'\xff\xfe')] + \
               [('x', b'\x7f' + b'\xff' * 6), ('x', b'\x7f' + b'\xff' * 7), ('x', b'\x7f' + b'\xff' * 15), ('x', b'\x00\x7f' + b'\xff' * 6),
                ('x', b'\x80' + b'\x00' * 7), ('x', b'\xff\x80' + b'\x00' * 7), ('x', b'\x7f' + b'\xff' * 5 + b'\xfe')] + \
               [('s', 'a'), ('s', 'hello world'), ('s', 'é'), ('f', 1.5), ('f', -2.0), ('fi', -7), ('fi', 3)]
        return [[v] for v in vals]
    if kd == 'lv2':
        vals = [('x', b'\xcd' * n) for n in (1, 255, 256, 32767, 32768, 65535)] + [('d', 1), ('d', -70000), ('s', 'str')]
        return [[v] for v in vals]
    if kd == 'wc':
        return [[k, c] for k in (('x', b'k'), ('s', 'key'), ('x', b'\x11' * 255), ('s', 'P'), ('d', 0), ('d', 1), ('d', 127), ('d', 128),
                                 ('d', 255), ('d', 256), ('d', 32767), ('d', 32768), ('d', 65535), ('d', 65536), ('d', 2 ** 24 - 1), ('d', 2 ** 31))
                for c in (('d', 0), ('d', 1), ('d', 255), ('x', b'\xff'), ('x', b'\x02'))]
    if kd == 'f32':
        return [[v] for v in (('f', 2.0), ('f', -3.0), ('f', 1.5), ('fi', 2), ('fi', -3), ('fi', 0), ('fi', -1), ('fi', 16777217),
                              ('x', b'\x3f\xc0\x00\x00'), ('x', b'\x7f\x80\x00\x00'), ('x', b'\x80\x00\x00\x00'), ('x', b'\x00\x00\x00\x00'),
                              ('x', b'\xff\x80\x00\x00'), ('x', b'\x7f\xc0\x00\x01'), ('x', b'\x00\x00\x00\x01'), ('x', b'\x4b\x00\x00\x00'),
                              ('x', b'\xcb\x00\x00\x01'), ('x', b'\x7f\x7f\xff\xff'), ('x', b'\xff\x7f\xff\xff'), ('x', b'\xbf\x80\x00\x00'))]
    if kd == 'u8u8':
        return [[a, b] for a in U8D[:3] + [('x', b'\x80'), ('x', b'\xff')] for b in (U8D[0], U8D[4], ('x', b'\x01'))]
    if kd == 'ms':
        return [[f, m, n] for f in (('x', b'\x00'), ('x', b'\xff'), ('d', 1)) for m, n in
                ((('d', 0), ('d', 0)), (('d', 1), ('d', 2)), (('d', 255), ('d', 255)), (('x', b'\x02'), ('x', b'\x03')))]
    if kd == 'h32':
        return [[('x', bytes(range(32)))], [('x', b'\xff' * 32)]]
    raise KeyError(kd)


def name_spellings(name):
    out = [('OP_', None), ('', None)]
    for a in ALIASES.get(name, []):
        if a.upper() not in ('OP_' + name, name):
            out.append(('', a))
    return out


SENT_A = ('I', 'FALSE', [])
SENT_B = ('I', 'TRUE', [])


def instr_case(ctx, name):
    n = 0
    plain = [nm for nm in OPNAMES if refasm.kind(nm) != 'block']
    for ops in operand_choices(name):
        stmt = ('I', name, ops)
        prog = [SENT_A, stmt, SENT_B]
        try:
            expect = refasm.encode_prog(prog)
        except AsmError:
            expect = None
        styles = []
        for prefix, alias in name_spellings(name):
            for case in ('upper', 'lower', 'mixed'):
                styles.append(Style(prefix=prefix, case=case, alias={name: alias} if alias else None))
        styles.append(Style(hexcase='upper'))
        styles.append(Style(valprefix='upper') if all(v[0] in ('d', 'x') for v in ops) else Style())
        styles.append(Style(quote="'"))
        styles.append(Style(ws='\n'))
        styles.append(Style(ws=' \t\n  '))
        if name in ('PUSH1', 'PUSH2'):
            styles.append(Style(push_size=True))
            styles.append(Style(push_size=True, case='lower', prefix=''))
        canon_ok = None
        for st in styles:
            n += 1
            src = refasm.source(prog, st)
            ctx.state((name, src))
            got, err = judge(ctx, prog, src, {'family': 'instruction', 'op': name}, expect)
            # every documented spelling of a statement the compiler accepts in its canonical spelling is accepted too
            if err is not None and expect is not None:
                if canon_ok is None:
                    canon_ok = compile_(refasm.source(prog, Style()))[1] is None
                    ctx.ran()
                if canon_ok:
                    ctx.violation({'family': 'instruction', 'op': name, 'clause': 'a documented spelling of an accepted statement is rejected'},
                                  f'source {src[:200]!r}: {err!r}')
        # the same statement as the last one of the source (nothing for a look-ahead to look at)
        last = [SENT_A, stmt]
        try:
            expect_last = refasm.encode_prog(last)
        except AsmError:
            expect_last = None
        for st in (Style(), Style(prefix='', case='lower')) + ((Style(push_size=True),) if name in ('PUSH1', 'PUSH2') else ()):
            n += 1
            src = refasm.source(last, st)
            ctx.state((name, src, 'last'))
            judge(ctx, last, src, {'family': 'instruction', 'op': name, 'position': 'end of source'}, expect_last)
            # position independence: a statement the compiler accepts in the middle of a source is accepted at its end
            if expect_last is not None:
                mid, mid_err = compile_(refasm.source(prog, st))
                got_last, last_err = compile_(src)
                ctx.ran(2)
                if mid_err is None and last_err is not None:
                    ctx.violation({'family': 'instruction', 'op': name, 'position': 'end of source',
                                   'clause': 'statement accepted mid-source is rejected as the last statement'},
                                  f'source {src!r}: {last_err!r} (compiles when followed by another statement)')
    ctx.evaluations += n - 1


def first_choice(name):
    ch = operand_choices(name)
    # prefer an x / s valued operand (the look-ahead of PUSH1 / PUSH2 style parsers is about the symbol after the value)
    for ops in ch:
        if ops and ops[0][0] in ('x',):
            return ops
    return ch[0]


def pair_case(ctx, name):
    """every instruction followed directly by every other instruction, in OP_ and bare spellings: nothing swallowed"""
    plain = [nm for nm in OPNAMES if refasm.kind(nm) != 'block']
    n = 0
    s1 = ('I', name, first_choice(name))
    alts = [s1] + ([('I', name, [('s', 'str')])] if refasm.kind(name) in ('lv1', 'lv2') else [])
    for s1 in alts:
        for nm2 in plain:
            prog = [s1, ('I', nm2, first_choice(nm2)), SENT_B]
            try:
                expect = refasm.encode_prog(prog)
            except AsmError:
                continue
            for st in (Style(prefix='', case='upper'), Style(prefix='', case='lower'), Style(prefix='OP_', case='lower')):
                n += 1
                src = refasm.source(prog, st)
                ctx.state((src,))
                judge(ctx, prog, src, {'family': 'instruction pairs', 'first': name}, expect)
    ctx.evaluations += max(n - 1, 0)


def push_case(ctx, v):
    """PUSH sugar picks the smallest push"""
    n = 0
    prog = [SENT_A, ('PUSH', v), SENT_B]
    try:
        expect = refasm.encode_prog(prog)
    except AsmError:
        expect = None
    for st in (Style(), Style(prefix='', case='lower'), Style(case='mixed'), Style(hexcase='upper'), Style(quote="'"), Style(ws='\n')):
        n += 1
        src = refasm.source(prog, st)
        ctx.state(('PUSH', src[:80], len(src)))
        judge(ctx, prog, src, {'family': 'PUSH sugar', 'len': len(refasm.value_bytes(v)) if expect else -1}, expect)
    ctx.evaluations += n - 1


def push_values():
    vals = [('x', b'\xee' * n) for n in (1, 2, 255, 256, 65535)] + [('x', b'\xee' * 65536), ('x', b'')]
    vals += [('d', n) for n in (0, 1, -1, 127, 128, -128, -129, 255, 256, 32767, 32768, -32768, -32769, 2 ** 31, 2 ** 52, -(2 ** 52))]
    vals += [('s', 'a'), ('s', 'ab'), ('s', 'hello world'), ('s', 'x' * 255), ('s', 'y' * 256), ('s', 'é')]
    return vals


def nop_case(ctx, code):
    n = 0
    name = 'NOP%d' % code
    for v in D8 + X8:
        prog = [SENT_A, ('I', name, [v]), SENT_B]
        expect = refasm.encode_prog(prog)
        for st in (Style(), Style(case='lower'), Style(case='mixed', hexcase='upper')):
            n += 1
            src = refasm.source(prog, st)
            ctx.state((name, src))
            judge(ctx, prog, src, {'family': 'NOP', 'code': 'any'}, expect)
    ctx.evaluations += n - 1


# ---------------------------------------------------------------- block B: control-flow programs x terminator styles
def lang(p, hoists=None):
    """CTRL abstract program -> language-level statements"""
    out = []
    r = spaces.Render()

    def prog(pp):
        o = []
        for s in pp:
            o.extend(stmt(s))
        return o

    def mk():
        m = r.marker()
        return ('PUSH', ('x', m[1:]))

    def stmt(s):
        k = s[0]
        if k == 'M':
            return [mk()]
        if k == 'T':
            return [('I', 'TRUE', [])]
        if k == 'F':
            return [('I', 'FALSE', [])]
        if k == 'RETURN':
            return [('I', 'RETURN', [])]
        if k == 'FAIL':
            return [('I', 'FALSE', []), ('I', 'VERIFY', [])]
        if k in ('CALL0', 'CALL1'):
            return [('I', 'CALL', [('d', int(k[-1]))])]
        if k == 'SETV':
            return [mk(), ('I', 'WRITE_CACHE', [('x', b'v'), ('d', 1)])]
        if k == 'GETV':
            return [('I', 'READ_CACHE', [('x', b'v')])]
        if k in ('IFT', 'IFF'):
            cond = [('I', 'TRUE' if k == 'IFT' else 'FALSE', [])]
            if hoists is not None and next(hoists, False):
                return [('HOIST_IF', cond, prog(s[1]))]
            return cond + [('IF', prog(s[1]))]
        if k in ('IFELSE_T', 'IFELSE_F'):
            cond = [('I', 'TRUE' if k == 'IFELSE_T' else 'FALSE', [])]
            if hoists is not None and next(hoists, False):
                return [('HOIST_IFELSE', cond, prog(s[1]), prog(s[2]))]
            return cond + [('IFELSE', prog(s[1]), prog(s[2]))]
        if k == 'TRY':
            return [('TRY', prog(s[1]), prog(s[2]))]
        if k in ('LOOP1', 'LOOP2'):
            return [('I', 'TRUE', []), ('LOOP', [('I', 'POP0', [])] + prog(s[1]) + [('I', 'FALSE', [])]), ('I', 'POP0', [])]
        if k in ('DEF0', 'DEF1'):
            return [('DEF', ('d', int(k[-1])), prog(s[1]))]
        if k == 'FUNC':
            return [('DEF', ('d', 2), prog(s[1])), ('I', 'CALL', [('d', 2)])]
        if k == 'RAW':
            assert s[1][0] == 0x2a
            return [('I', 'CALL', [('d', s[1][1])])]
        if k == 'EVAL':
            body = refasm.encode_prog(prog(s[1]))
            return ([('PUSH', ('x', body))] if body else []) + [('I', 'EVAL', [])]
        raise ValueError(k)
    return prog(p)


def count_blocks(p):
    nb = nh = 0
    for s in p:
        if s[0] in ('IFT', 'IFF', 'IFELSE_T', 'IFELSE_F'):
            nh += 1
            nb += 1
        elif s[0] in ('TRY', 'LOOP1', 'LOOP2', 'DEF0', 'DEF1', 'FUNC'):
            nb += 1
        for sub in s[1:]:
            if isinstance(sub, tuple):
                a, b = count_blocks(sub)
                nb += a
                nh += b
    return nb, nh


def ctrl_case(ctx, p):
    nb, nh = count_blocks(p)
    n = 0
    sentinel = [SENT_B]
    for hv in itertools.product((False, True), repeat=nh):
        prog = lang(p, iter(hv)) + sentinel
        try:
            expect = refasm.encode_prog(prog)
        except AsmError:
            expect = None
        for bv in itertools.product((True, False), repeat=nb):
            n += 1
            st = Style(prefix='', case='lower', block_styles=iter(bv))
            try:
                src = refasm.source(prog, st)
            except refasm.Ambiguous:
                ctx.count('dangling ELSE/EXCEPT rendering skipped')
                continue
            ctx.state((src,))
            mixed = len(set(bv)) > 1
            judge(ctx, prog, src, {'family': 'blocks', 'terminators': 'braces' if all(bv) else 'END_ keywords' if not any(bv) else 'mixed',
                                   'hoisted': any(hv)}, expect)
    # comments at every symbol gap, whitespace kinds, upper case (default braces)
    prog = lang(p) + sentinel
    try:
        expect = refasm.encode_prog(prog)
    except AsmError:
        expect = None
    toks = refasm.tokens(prog, Style())
    for g in range(len(toks) + 1):
        for com, pname in ((['#', 'true', 'x01', 'OP_FALSE', '#'], 'hash comment with op names'),
                           (['"', 'if', '{', 'push', '"'], 'quote comment containing brace tokens'),
                           (['#', '!=', 'zq', '[', ']', '{', 'FALSE', '}', '#'], 'comment that looks like a macro definition'),
                           (['#', '~', '{', 'true', '}', '#'], 'comment that looks like a comptime block'),
                           (['"', '~!', '"'], 'comment holding a lone comptime marker'),
                           (['#', '}', 'else', '{', '#'], 'comment holding clause tokens'),
                           (['#', '"', '#'], 'hash comment holding a lone double quote'),
                           (['"', '#', '"'], 'quote comment holding a lone hash'),
                           (["'", '#', '"', "'"], 'apostrophe comment holding the two other delimiters'),
                           (['#', "'", 'x', '#'], 'hash comment holding a lone apostrophe')):
            n += 1
            src = ' '.join(toks[:g] + com + toks[g:])
            ctx.state((src,))
            # a comment between an instruction and its operand is not a documented position
            judge_comment(ctx, prog, src, toks, g, expect, pname)
    for ws in ('\n', '\t', '  \n\t '):
        n += 1
        src = refasm.source(prog, Style(ws=ws))
        judge(ctx, prog, src, {'family': 'blocks', 'terminators': 'braces', 'whitespace': repr(ws)}, expect)
    ctx.evaluations += n - 1


def needs_operand(tok):
    t = tok.upper()
    t = t[3:] if t.startswith('OP_') else t
    if t in ('PUSH', 'DEF'):
        return True
    try:
        return refasm.kind(t) not in ('none', 'block')
    except KeyError:
        return False


_BASE_OK = {}


def judge_comment(ctx, prog, src, toks, g, expect, payload):
    # "everything between two hashtags or double quotes is disregarded": every symbol gap is a comment position
    got, err = judge(ctx, prog, src, {'family': 'comments', 'payload': payload}, expect)
    # ... so a comment never changes whether a source is accepted
    if err is not None and expect is not None:
        base = ' '.join(toks)
        if base not in _BASE_OK:
            if len(_BASE_OK) > 4096:
                _BASE_OK.clear()
            _BASE_OK[base] = compile_(base)[1] is None
            ctx.ran()
        if _BASE_OK[base]:
            ctx.violation({'family': 'comments', 'payload': payload, 'clause': 'a comment makes an accepted source fail'},
                          f'source {src[:300]!r}: {err!r}')


# ---------------------------------------------------------------- block C: variables, macros, comptime
def sugar_cases():
    out = []
    P = lambda b: ('PUSH', ('x', b))
    W = lambda name, n: ('I', 'WRITE_CACHE', [('x', name.encode()), ('d', n)])
    for name in ('a', 'abc', 'X9'):
        out.append(('@= %s [ x01 x0203 d5 ]' % name, [P(b'\x01'), P(b'\x02\x03'), ('PUSH', ('d', 5)), W(name, 3)]))
        out.append(('@= %s [ ]' % name, [W(name, 0)]))
        out.append(('@= %s 2' % name, [W(name, 2)]))
        out.append(('@%s' % name, [('I', 'READ_CACHE', [('x', name.encode())])]))
        out.append(('@#%s' % name, [('I', 'READ_CACHE_SIZE', [('x', name.encode())])]))
    out.append(('!= m1 [ a b ] { push a push b add_ints d2 } !m1 [ d1 d2 ] !m1 [ x03 d4 ]',
                [('PUSH', ('d', 1)), ('PUSH', ('d', 2)), ('I', 'ADD_INTS', [('d', 2)]), P(b'\x03'), ('PUSH', ('d', 4)), ('I', 'ADD_INTS', [('d', 2)])]))
    out.append(('!= two [ ] { true true } !two [ ] false !two [ ]',
                [('I', 'TRUE', [])] * 2 + [('I', 'FALSE', [])] + [('I', 'TRUE', [])] * 2))
    out.append(('!= inner [ v ] { push v } != outer [ w ] { !inner [ w ] dup } !outer [ x07 ]', [P(b'\x07'), ('I', 'DUP', [])]))
    out.append(('true != late [ ] { false } !late [ ]', [('I', 'TRUE', []), ('I', 'FALSE', [])]))
    # all parameters are replaced at once: an argument spelled like another parameter's name is not substituted again
    for names in (('d1', 'd2'), ('d1', 'd2', 'd3'), ('x0a', 'x0b'), ('true', 'false')):
        for args in itertools.product(names, repeat=len(names)):
            tok = lambda a: [('PUSH', ('d', int(a[1:])))] if a[0] == 'd' else [P(bytes.fromhex(a[1:]))] if a[0] == 'x' else [('I', a.upper(), [])]
            body = ' '.join(('push ' + nm) if nm[0] in 'dx' else nm for nm in names)
            out.append(('!= mp [ %s ] { %s } !mp [ %s ]' % (' '.join(names), body, ' '.join(args)), [t for a in args for t in tok(a)]))
    # commented-out definitions / blocks do not exist
    out.append(('!= m7 [ ] { true } # old: != m7 [ ] { false } # !m7 [ ]', [('I', 'TRUE', [])]))
    out.append(('# != m7 [ ] { false } # != m7 [ ] { true } !m7 [ ]', [('I', 'TRUE', [])]))
    out.append(('!= m7 [ a ] { push a } " !m7 [ x09 ] " !m7 [ x01 ]', [P(b'\x01')]))
    out.append(('push ~ { true # } # false }', [P(b'\x01\x00')]))
    out.append(('true # ~ # false', [('I', 'TRUE', []), ('I', 'FALSE', [])]))
    out.append(('true " ~! { " false', [('I', 'TRUE', []), ('I', 'FALSE', [])]))
    # comptime
    out.append(('push ~ { true false }', [P(b'\x01\x00')]))
    out.append(('push ~ { push x0102 dup }', [P(b'\x03\x02\x01\x02\x1d')]))
    out.append(('push ~! { push d1 push d2 add_ints d2 }', [P(b'\x03')]))
    out.append(('push ~! { push x00 sha256 }', [P(bytes.fromhex('6e340b9cffb37a989ca544e6bb780a2c78901d3fb33738768511a30617afa01d'))]))
    out.append(('push ~! { push s"ab" push s"cd" concat }', [P(b'abcd')]))
    out.append(('push ~! { push ~ { true } size }', [P(b'\x01')]))
    out.append(('true ~! { } false', [('I', 'TRUE', []), ('I', 'FALSE', [])]))
    out.append(('if ( push ~! { true } ) { push ~ { false } }', [P(b'\xff'), ('IF', [P(b'\x00')])]))
    return out


def sugar_case(ctx, case):
    src, prog = case
    n = 0
    for pre, post in (('', ''), ('false ', ' true'), ('# c # ', ' # d #')):
        n += 1
        extra_a = [SENT_A] if pre.startswith('false') else []
        extra_b = [SENT_B] if post.endswith('true') else []
        expect = refasm.encode_prog(extra_a + prog + extra_b)
        s = pre + src + post
        ctx.state((s,))
        judge(ctx, prog, s, {'family': 'variables/macros/comptime'}, expect)
        judge(ctx, prog, s.upper() if 's"' not in s else s, {'family': 'variables/macros/comptime', 'case': 'upper'}, expect) \
            if '@' not in s and '!' not in s else None
    ctx.evaluations += n - 1


# ---------------------------------------------------------------- block D: un-encodable sources must be rejected
def bad_sources():
    out = []
    for nm in ('POP1', 'ADD_INTS', 'COPY', 'CALL', 'SHAKE256', 'CHECK_SIG', 'NOP200', 'PUSH0'):
        for v in ('d128', 'd-129', 'd256', 'd1000', 'x0102', 'x100'):
            out.append('false OP_%s %s true' % (nm, v) if not nm.startswith('NOP') else 'false %s %s true' % (nm, v))
    for nm in ('SWAP',):
        for a, b in (('d256', 'd0'), ('d0', 'd256'), ('d-1', 'd0'), ('x0100', 'x00')):
            out.append('OP_SWAP %s %s' % (a, b))
    for a in (('x00', 'd256', 'd1'), ('x00', 'd1', 'd256'), ('x0000', 'd1', 'd1'), ('d256', 'd1', 'd1')):
        out.append('OP_CHECK_MULTISIG %s %s %s' % a)
    # hex operands of the wrong width (empty, one digit, three digits) in each operand position of the two-/three-operand forms
    for bad in ('x', 'x1', 'x001', 'x0102'):
        for pos in range(2):
            a = ['x01', 'x01']
            a[pos] = bad
            out.append('true OP_SWAP %s %s false' % tuple(a))
        for pos in range(3):
            a = ['x00', 'x01', 'x01']
            a[pos] = bad
            out.append('true OP_CHECK_MULTISIG %s %s %s false' % tuple(a))
            out.append('OP_CHECK_MULTISIG_VERIFY %s %s %s' % tuple(a))
    out.append('OP_PUSH x' + 'aa' * 65536)
    out.append('OP_PUSH2 x' + 'aa' * 65536)
    out.append('OP_PUSH1 x' + 'aa' * 256)
    out.append('OP_READ_CACHE x' + 'aa' * 256)
    out.append('OP_WRITE_CACHE x' + 'aa' * 256 + ' d1')
    out.append('OP_WRITE_CACHE x61 d256')
    out.append('OP_MERKLEVAL x' + 'aa' * 33)
    out.append('OP_MERKLEVAL x' + 'aa' * 31)
    out.append('OP_MERKLEVAL d5')
    out.append('OP_IF { ' + 'OP_PUSH x' + 'aa' * 65535 + ' }')
    out.append('OP_LOOP { ' + 'OP_PUSH x' + 'aa' * 65535 + ' }')
    out.append('OP_DEF 0 { ' + 'OP_PUSH x' + 'aa' * 65535 + ' }')
    out.append('OP_TRY { ' + 'OP_PUSH x' + 'aa' * 65535 + ' }')
    out.append('OP_DEF 256 { true }')
    out.append('OP_DEF d256 { true }')
    out.append('OP_DEF -1 { true }')
    for s in ('OP_NOT_AN_OP', 'true OP_BOGUS d1', 'NOP91 d1', 'NOP256 d1', 'OP_IF { true', 'OP_IF true', 'OP_TRY { true',
              'OP_LOOP { true', 'OP_DEF 0 { true', 'push s"unterminated', '# unterminated comment true', 'OP_PUSH', 'OP_PUSH q12',
              'OP_PUSH dabc', 'OP_PUSH xzz', 'OP_DIV_FLOAT d1', 'OP_DIV_FLOAT x0102', '!undefined [ ]', 'OP_DEF 0 { OP_DEF 1 { true } }',
              'OP_TRY { true } EXCEPT { false } EXCEPT { true }', 'OP_CALL', 'OP_PUSH0', 'OP_SWAP d1'):
        out.append(s)
    return out


def bad_case(ctx, src):
    ctx.state((src[:100], len(src)))
    judge(ctx, None, src, {'family': 'un-encodable', 'source': src[:40]}, None)


def from_src_case(ctx, name):
    """Script.from_src returns the same bytes as compile_script"""
    for ops in operand_choices(name)[:3]:
        prog = [SENT_A, ('I', name, ops), SENT_B]
        src = refasm.source(prog, Style(prefix='', case='lower'))
        a, e1 = compile_(src)
        try:
            b = ScriptCls.from_src(src).bytes
        except BaseException:
            b = None
        ctx.ran(2)
        if a != b:
            ctx.violation({'family': 'Script.from_src', 'clause': 'same bytes as compile_script'}, f'{src!r}: {a} vs {b}')


HISTORIES = [
    ('!= dbl [ v ] { push v push v } !dbl [ d1 ]', '!dbl [ d9 ] true'),
    ('if { != inif [ ] { false } !inif [ ] }', '!inif [ ] true'),
    ('push ~ { != inct [ ] { true } !inct [ ] }', '!inct [ ]'),
    ('@= v1 [ d1 ] != setv [ ] { @v1 } !setv [ ]', 'true !setv [ ]'),
]


def history_case(ctx, case):
    """one compilation leaves nothing behind for the next: a macro defined by an earlier source is undefined in a later one,
    and compiling the same source twice gives the same bytes (through compile_script and Script.from_src)"""
    first, second = case
    for compiler in (env.parsing.compile_script, lambda s_: env.tools.Script.from_src(s_).bytes):
        b1, e1 = None, None
        try:
            b1 = compiler(first)
            b1_again = compiler(first)
        except BaseException as e:
            e1 = e
        ctx.ran(2)
        ctx.state(('history', first, second))
        if e1 is not None or b1 != b1_again:
            ctx.violation({'family': 'compile histories', 'clause': 'the same source compiles to the same bytes every time'},
                          f'{first!r}: {e1!r}')
            continue
        try:
            got = compiler(second)
            err = None
        except BaseException as e:
            got, err = None, e
        ctx.ran()
        ctx.outcome('history:' + ('rejected' if err is not None else 'ACCEPTED'))
        if err is None:
            ctx.violation({'family': 'compile histories', 'clause': 'un-encodable source must be rejected',
                           'history': 'macro defined by an earlier compilation'},
                          f'after compiling {first!r}, the source {second!r} compiled to {got.hex()}')


def def_handle_case(ctx, n):
    """DEF with every handle 0..255 in every documented spelling, alone and inside an enclosing block (whose length field
    counts the one handle byte)"""
    cnt = 0
    for sp in (str(n), 'd%d' % n, 'x%02x' % n):
        for form, prog in (('def %s { true }', [('DEF', ('d', n), [('I', 'TRUE', [])])]),
                           ('def %s true end_def', [('DEF', ('d', n), [('I', 'TRUE', [])])]),
                           ('true if { def %s { true false } }', [('I', 'TRUE', []), ('IF', [('DEF', ('d', n), [('I', 'TRUE', []), ('I', 'FALSE', [])])])]),
                           ('try { def %s { } } except { true } call x' + '%02x' % n,
                            [('TRY', [('DEF', ('d', n), [])], [('I', 'TRUE', [])]), ('I', 'CALL', [('x', bytes([n]))])])):
            cnt += 1
            src = form % sp
            expect = refasm.encode_prog(prog)
            ctx.state((src,))
            got, err = judge(ctx, prog, src, {'family': 'DEF handles', 'spelling': sp[0] if not sp[0].isdigit() else 'plain'}, expect)
            if err is not None:
                ctx.violation({'family': 'DEF handles', 'clause': 'a documented spelling of an accepted statement is rejected'},
                              f'source {src!r}: {err!r}')
    ctx.evaluations += cnt - 1


def blocks(tier, seed):
    q = tier == 'quick'
    plain = [nm for nm in OPNAMES if refasm.kind(nm) != 'block']
    nfull = 3 if q else 4
    bl = [
        Block('A_instructions_x_operands_x_spellings', plain, instr_case,
              'every non-block instruction x operand boundary values x every name spelling / case / value style', nshards=len(plain)),
        Block('A_instruction_pairs', plain, pair_case,
              'every instruction directly followed by every other instruction, OP_ and bare names, upper and lower case', nshards=len(plain)),
        Block('A_push_sugar', push_values(), push_case, 'PUSH picks the smallest push', nshards=16),
        Block('A_nop_codes', list(range(92, 256)), nop_case, 'NOP92..255 x count bytes', nshards=32),
        Block('B_control_programs_x_styles', lambda s, n: spaces.progs_upto(nfull, 'full', s, n), ctrl_case,
              'every control program <= %d nodes x all terminator/hoist combinations x comments at every gap x whitespace' % nfull, nshards=64),
        Block('B_nesting_chains', lambda s, n: itertools.islice(spaces.chain_progs(3 if q else 4), s, None, n), ctrl_case,
              'nesting chains x styles', nshards=32),
        Block('A_def_handles', list(range(256)), def_handle_case, 'DEF 0..255 x spellings {n, dn, xhh} x {braces, END_DEF, inside IF, inside TRY + CALL}', nshards=32),
        Block('C_variables_macros_comptime', sugar_cases(), sugar_case, 'syntactic sugar forms', nshards=8),
        Block('D_unencodable_sources', bad_sources(), bad_case, 'operands one past their range, unknown names, unterminated constructs', nshards=16),
        Block('compile_histories', list(HISTORIES), history_case,
              'a source that defines a macro, then a source that only invokes it; each source twice', nshards=len(HISTORIES)),
        Block('Script_from_src', plain, from_src_case, 'Script.from_src agrees with compile_script', nshards=8),
    ]
    return bl


def meta(tier, seed):
    q = tier == 'quick'
    return dict(
        rule='abstract programs x spelling vectors rendered by ref.refasm; accepted sources must compile to the reference bytes; '
             'un-encodable sources must raise; rejected-but-valid sources are only counted (the statement makes no claim)',
        states_meaning='distinct source texts; transitions = compilations',
        bounds={'control_nodes': 3 if q else 4, 'chain_depth': 3 if q else 4, 'documented_aliases': sum(len(v) for v in ALIASES.values())},
        assumptions=['spellings the language spec does not define (empty x values for one-byte operands, d-prefixed cache keys) and '
                     'dangling-ELSE / dangling-EXCEPT renderings are left out of the space',
                     'aliases are taken from the "Aliases:" lists of docs.md'],
    )
