"""C19 - extension registries behave as sets; runs do not leak state into later runs.

Explicit-state exploration (mc.explore): a transition is a call of the real registry API (or of
an observer: run / compile / assemble), a state is a snapshot of *all* process-global mutable
state of the package, including every mutable default argument found by introspection.  Each
registry subsystem is explored to a fixpoint; the full product of all operations is explored
to a depth bound.  On every edge the abstraction of the new state must equal the set model's
successor; in every state the probes must observe exactly the active entries; observers must be
self-loops whose results depend only on (arguments, abstract state).
"""
import copy
import itertools
import inspect
import types
from typing import Protocol, runtime_checkable

from mc import env
from mc.explore import Explorer
from mc.run import Block
from ref.optable import op, push

F, P_, T, C = env.functions, env.parsing, env.tools, env.classes
SEE = env.errors.ScriptExecutionError

# ---------------------------------------------------------------- entries used by the alphabet
CALLS = []


def _mk_plugin(name):
    def plugin(tape, stack, cache):
        CALLS.append(name)
        return True
    plugin.__name__ = name
    return plugin


class Holder:
    """p2 is a bound method: every attribute access yields a new object that is equal to, but not identical with, the
    one that was registered (a registry must compare entries by equality)"""

    def p2(self, tape, stack, cache):
        CALLS.append('p2')
        return True


HOLDER = Holder()


class PluginTable(dict):
    def __getitem__(self, k):
        if k == 'p2':
            return HOLDER.p2
        return dict.__getitem__(self, k)


PLUGINS = PluginTable({n: _mk_plugin(n) for n in ('p1', 'p2', 'p3')})
PLUGIN_NAME = {PLUGINS['p1']: 'p1', HOLDER.p2: 'p2', PLUGINS['p3']: 'p3'}


class ObjA:            # can be invoked only
    def abi(self, args):
        CALLS.append('A.abi')
        return [b'A']


class ObjB:            # can check transfers only
    def verify_txn_proof(self, proof):
        return True

    def verify_transfer(self, proof, source, destination):
        return True

    def verify_txn_constraint(self, proof, constraint):
        return True

    def calc_txn_aggregates(self, proofs, scope=None):
        CALLS.append('B.agg')
        return {scope: 5}


OBJS = {'A': ObjA(), 'B': ObjB()}
OBJ_NAME = {id(v): k for k, v in OBJS.items()}


def _declare_locally():
    """an interface declared in a local scope: its __qualname__ ('_declare_locally.<locals>.I1') differs from its __name__"""
    @runtime_checkable
    class I1(Protocol):
        def foo(self) -> None:
            ...
    return I1


I1 = _declare_locally()


@runtime_checkable
class I2(Protocol):
    def abi(self, args):
        ...


IFACES = {'I1': I1, 'I2': I2, 'CanBeInvoked': env.tapescript.CanBeInvoked, 'CanCheckTransfer': env.tapescript.CanCheckTransfer}
SATISFIES = {'A': {'I2', 'CanBeInvoked'}, 'B': {'CanCheckTransfer'}}
SCOPES = ('signature_extensions', 'check_template')
ALIAS_TARGET = {'VERIFALIASA': 'OP_TRUE', 'VERIFALIASB': 'OP_FALSE'}
LOOKAHEAD_PRE = ('OP_PUSH1 x0102', 'OP_PUSH2 x0102', 'push1 d1', 'OP_PUSH d7', 'OP_PUSH1 d2 x0102', 'OP_DIV_INT d2', '@v')

# ---------------------------------------------------------------- snapshot of all process-global mutable state
MODULES = [env.functions, env.parsing, env.tools, env.classes, env.tapescript.AMHL if hasattr(env.tapescript, 'AMHL') else None]


def mutable_defaults():
    out = []
    import tapescript.AMHL as amhl
    for mod in (env.functions, env.parsing, env.tools, env.classes, amhl):
        for name, obj in sorted(vars(mod).items()):
            fns = []
            if isinstance(obj, types.FunctionType) and obj.__module__ == mod.__name__:
                fns.append((name, obj))
            elif inspect.isclass(obj) and obj.__module__ == mod.__name__:
                for n2, o2 in sorted(vars(obj).items()):
                    f = o2.__func__ if isinstance(o2, (staticmethod, classmethod)) else o2
                    if isinstance(f, types.FunctionType):
                        fns.append((name + '.' + n2, f))
            for fname, fn in fns:
                for i, d in enumerate(fn.__defaults__ or ()):
                    if isinstance(d, (dict, list, set)):
                        out.append(((mod.__name__, fname, i), d))
                for k, d in (fn.__kwdefaults__ or {}).items():
                    if isinstance(d, (dict, list, set)):
                        out.append(((mod.__name__, fname, k), d))
    return out


DEFAULTS = mutable_defaults()
DICT_REGS = [('functions', n) for n in ('_contracts', '_contract_interfaces', 'opcode_aliases', 'opcodes', 'nopcodes', 'opcodes_inverse',
                                        'nopcodes_inverse', 'flags')] + [('parsing', 'additional_opcodes')]


def reg(modname, name):
    return getattr(F if modname == 'functions' else P_, name)


def snapshot():
    s = {'plugins': {k: list(v) for k, v in F._plugins.items()}, 'flags_to_set': list(F.flags_to_set)}
    for m, n in DICT_REGS:
        s[(m, n)] = dict(reg(m, n))
    s['defaults'] = [(key, copy.deepcopy(d)) for key, d in DEFAULTS]
    return s


def restore(s):
    # in place: the list objects the module created stay the ones in use (re-binding fresh lists here would hide
    # aliasing between scopes that exists in the module's own initial state)
    for k in list(F._plugins):
        if k not in s['plugins']:
            del F._plugins[k]
    for k, v in s['plugins'].items():
        if isinstance(F._plugins.get(k), list):
            F._plugins[k][:] = v
        else:
            F._plugins[k] = list(v)
    F.flags_to_set[:] = s['flags_to_set']
    for m, n in DICT_REGS:
        d = reg(m, n)
        d.clear()
        d.update(s[(m, n)])
    for (key, live), (_, saved) in zip(DEFAULTS, s['defaults']):
        if isinstance(live, dict):
            live.clear()
            live.update(copy.deepcopy(saved))
        elif isinstance(live, list):
            live[:] = copy.deepcopy(saved)
        else:
            live.clear()
            live.update(saved)


BASE = None


def canon(s):
    global BASE
    pl = tuple((k, tuple(PLUGIN_NAME.get(p, repr(p)) for p in v)) for k, v in sorted(s['plugins'].items()))
    con = tuple(sorted((k, OBJ_NAME.get(id(v), repr(v))) for k, v in s[('functions', '_contracts')].items()))
    ifc = tuple(sorted(s[('functions', '_contract_interfaces')]))
    al = tuple(sorted(s[('functions', 'opcode_aliases')].items()))
    other = tuple((n, tuple(sorted(map(repr, s[(m, n)])))) for m, n in DICT_REGS[3:])
    dfl = tuple((key, repr(sorted(d.items(), key=repr)) if isinstance(d, dict) else repr(d)) for key, d in s['defaults'])
    return (pl, con, ifc, hash(al), other, tuple(s['flags_to_set']), dfl)


def alpha(s):
    """abstraction: registries as sets"""
    pl = {sc: frozenset(PLUGIN_NAME.get(p, repr(p)) for p in s['plugins'].get(sc, [])) for sc in SCOPES}
    dup = any(len(v) != len(set(v)) for v in s['plugins'].values())
    con = {k: OBJ_NAME.get(id(v), repr(v)) for k, v in s[('functions', '_contracts')].items()}
    ifc = frozenset(s[('functions', '_contract_interfaces')])
    al = {a: s[('functions', 'opcode_aliases')][a] for a in ALIAS_TARGET if a in s[('functions', 'opcode_aliases')]}
    return {'plugins': pl, 'dup': dup, 'contracts': con, 'ifaces': ifc, 'aliases': al}


def alpha_key(a):
    return (tuple(sorted((k, tuple(sorted(v))) for k, v in a['plugins'].items())), tuple(sorted(a['contracts'].items())),
            tuple(sorted(a['ifaces'])), tuple(sorted(a['aliases'].items())))


# ---------------------------------------------------------------- operations
def ops_plugins():
    o = []
    for sc in SCOPES:
        for p in PLUGINS:
            o.append(('add_plugin', sc, p))
            o.append(('remove_plugin', sc, p))
        o.append(('reset_plugins', sc))
    o += [('add_sigext', 'p1'), ('remove_sigext', 'p2'), ('reset_sigext',)]
    return o


def ops_contracts():
    o = []
    for cid in (b'c1', b'c2'):
        for x in OBJS:
            o.append(('add_contract', cid, x))
        o.append(('remove_contract', cid))
    for i in IFACES:
        o.append(('add_iface', i))
        o.append(('remove_iface', i))
    return o


def ops_aliases():
    return [('add_alias', 'VERIFALIASA', 'OP_TRUE'), ('add_alias', 'VERIFALIASB', 'OP_FALSE'), ('add_alias', 'VERIFALIASA', 'OP_FALSE'),
            ('add_alias', 'verifaliasb', 'op_true')]


OBSERVERS = [('obs', 'run'), ('obs', 'compile'), ('obs', 'assemble')]


def apply_op(o):
    """-> ('ok', value) | ('raise', exception class name)"""
    try:
        k = o[0]
        if k == 'add_plugin':
            return ('ok', F.add_plugin(o[1], PLUGINS[o[2]]))
        if k == 'remove_plugin':
            return ('ok', F.remove_plugin(o[1], PLUGINS[o[2]]))
        if k == 'reset_plugins':
            return ('ok', F.reset_plugins(o[1]))
        if k == 'add_sigext':
            return ('ok', F.add_signature_extension(PLUGINS[o[1]]))
        if k == 'remove_sigext':
            return ('ok', F.remove_signature_extension(PLUGINS[o[1]]))
        if k == 'reset_sigext':
            return ('ok', F.reset_signature_extensions())
        if k == 'add_contract':
            return ('ok', F.add_contract(o[1], OBJS[o[2]]))
        if k == 'remove_contract':
            return ('ok', F.remove_contract(o[1]))
        if k == 'add_iface':
            return ('ok', F.add_contract_interface(IFACES[o[1]]))
        if k == 'remove_iface':
            return ('ok', F.remove_contract_interface(IFACES[o[1]]))
        if k == 'add_alias':
            return ('ok', F.add_alias(o[1], o[2]))
        if k == 'obs':
            return ('ok', observe(o[1]))
    except BaseException as e:
        if isinstance(e, (KeyboardInterrupt, SystemExit, MemoryError)):
            raise
        return ('raise', type(e).__name__)
    raise ValueError(o)


def model_step(a, o):
    """set model: abstract state x operation -> (abstract state', expected result kind)"""
    pl = {k: set(v) for k, v in a['plugins'].items()}
    con = dict(a['contracts'])
    ifc = set(a['ifaces'])
    al = dict(a['aliases'])
    res = 'ok'
    k = o[0]
    if k == 'add_plugin':
        pl[o[1]].add(o[2])
    elif k == 'remove_plugin':
        pl[o[1]].discard(o[2])
    elif k == 'reset_plugins':
        pl[o[1]].clear()
    elif k == 'add_sigext':
        pl['signature_extensions'].add(o[1])
    elif k == 'remove_sigext':
        pl['signature_extensions'].discard(o[1])
    elif k == 'reset_sigext':
        pl['signature_extensions'].clear()
    elif k == 'add_contract':
        if SATISFIES[o[2]] & ifc:
            con[o[1]] = o[2]
        else:
            res = 'raise'
    elif k == 'remove_contract':
        con.pop(o[1], None)
    elif k == 'add_iface':
        ifc.add(o[1])
    elif k == 'remove_iface':
        ifc.discard(o[1])
    elif k == 'add_alias':
        if o[1].upper() in al:
            res = 'raise'
        else:
            al[o[1].upper()] = o[2].upper()
    return {'plugins': {k2: frozenset(v) for k2, v in pl.items()}, 'dup': False, 'contracts': con, 'ifaces': frozenset(ifc),
            'aliases': al}, res


# ---------------------------------------------------------------- observers and probes
def P(b):
    return push(b) if len(b) else b'\x03\x00'


def observe(kind):
    if kind == 'run':
        CALLS.clear()
        cache = {'sigfield1': b'abc', 'custom': [b'x', 1]}
        contracts = {b'own': OBJS['A']}
        own_list = [PLUGINS['p3']]
        plugins = {'check_template': own_list}
        before = (copy.deepcopy(cache), dict(contracts), {k: list(v) for k, v in plugins.items()})
        script = op('GET_MESSAGE') + b'\x00' + P(b'abc') + op('CHECK_TEMPLATE') + b'\x01' + P(b'') + P(b'\x00') + P(b'own') + op('INVOKE')
        out = []
        try:
            _, st, _ = F.run_script(script, cache, contracts, plugins=plugins)
            out.append(tuple(st.list()))
        except BaseException as e:
            out.append(type(e).__name__)
        out.append(F.run_auth_scripts([op('GET_MESSAGE') + b'\x00' + op('POP0'), op('TRUE')], cache, contracts, plugins))
        after = (cache, contracts, {k: list(v) for k, v in plugins.items()})
        out.append(('caller dicts unchanged', before == after and plugins['check_template'] is own_list))
        out.append(tuple(sorted(CALLS)))
        return tuple(out)
    if kind == 'compile':
        srcs = ['!= mq [ a ] { push a dup } !mq [ x01 ] !mq [ d2 ]', 'push ~! { push d1 push d2 add_ints d2 } push ~ { true }',
                '@= v [ x01 x02 ] @v @#v', 'if ( true ) { false } else { true }']
        out = []
        for s in srcs:
            try:
                out.append(P_.compile_script(s))
            except BaseException as e:
                out.append(type(e).__name__)
            try:
                out.append(T.Script.from_src(s).bytes)
            except BaseException as e:
                out.append(type(e).__name__)
        try:
            out.append(P_.compile_script('!mq [ x05 ]'))      # macro defined by an earlier compilation must not be visible
        except BaseException as e:
            out.append(type(e).__name__)
        return tuple(out)
    if kind == 'assemble':
        out = []
        for src in ('!zz [ ]', '!= zz [ ] { true } !zz [ ]', 'false'):
            try:
                out.append(P_.assemble(P_.get_symbols(src)))
            except BaseException as e:
                out.append(type(e).__name__)
        try:
            out.append(tuple(P_.parse_comptime(P_.get_symbols('!yy [ ]'))))
        except BaseException as e:
            out.append(type(e).__name__)
        try:
            out.append(tuple(P_.parse_comptime(P_.get_symbols('!= yy [ ] { true } ~ { !yy [ ] }'))))
        except BaseException as e:
            out.append(type(e).__name__)
        return tuple(out)
    raise ValueError(kind)


def probes(ctx, a, hist, where):
    """in every state: the probes observe exactly the active entries"""
    sig = {'where': where}
    # signature-extension plugins: each active one exactly once per signature instruction
    CALLS.clear()
    try:
        F.run_script(op('GET_MESSAGE') + b'\x00', {'sigfield1': b'abc'})
    except BaseException as e:
        ctx.violation({**sig, 'clause': 'probe run failed'}, f'history {hist}: {e!r}')
    ctx.ran()
    if sorted(CALLS) != sorted(a['plugins']['signature_extensions']):
        ctx.violation({**sig, 'clause': 'active signature-extension plugins run exactly once', 'registry': 'plugins'},
                      f'history {hist}: active {sorted(a["plugins"]["signature_extensions"])}, called {CALLS}')
    CALLS.clear()
    try:
        F.run_script(P(b'abc') + op('CHECK_TEMPLATE') + b'\x01', {'sigfield1': b'abc'}, additional_flags={10: False})
    except BaseException as e:
        ctx.violation({**sig, 'clause': 'probe run failed'}, f'history {hist}: {e!r}')
    ctx.ran()
    if sorted(CALLS) != sorted(a['plugins']['check_template']):
        ctx.violation({**sig, 'clause': 'active check_template plugins run exactly once', 'registry': 'plugins'},
                      f'history {hist}: active {sorted(a["plugins"]["check_template"])}, called {CALLS}')
    # ... once per signature instruction of every kind (CHECK_SIG and SIGN build the message on helper tapes), and a plugin dict
    # given to the run replaces the registered ones of the scope it names
    pk_ = bytes.fromhex('3b6a27bcceb6a42d62a3a8d02a6f0d73653215771de243a63ac048a18b59da29')
    for iname, script_ in (('CHECK_SIG', P(b'\x01' * 64) + P(pk_) + op('CHECK_SIG') + b'\x00'),
                           ('SIGN', P(b'\x07' * 32) + op('SIGN') + b'\x00'),
                           ('CHECK_MULTISIG', P(b'\x01' * 64) + P(pk_) + op('CHECK_MULTISIG') + b'\x00\x01\x01')):
        for injected in (None, [PLUGINS['p3']], []):
            CALLS.clear()
            try:
                F.run_script(script_, {'sigfield1': b'abc'}, **({} if injected is None else {'plugins': {'signature_extensions': list(injected)}}))
            except BaseException as e:
                ctx.violation({**sig, 'clause': 'probe run failed'}, f'history {hist}: {iname}: {e!r}')
            ctx.ran()
            want_calls = sorted(a['plugins']['signature_extensions']) if injected is None else (['p3'] if injected else [])
            if sorted(CALLS) != want_calls:
                ctx.violation({**sig, 'clause': 'active signature-extension plugins run exactly once', 'registry': 'plugins', 'instruction': iname,
                               'injected': 'none' if injected is None else 'same scope'},
                              f'history {hist}: {iname}, injected {None if injected is None else len(injected)}: expected calls {want_calls}, got {sorted(CALLS)}')
    # a plugin dict given to one run replaces the registered plugins of the scopes it names - and of no other scope
    for given, script_, scope in (('check_template', op('GET_MESSAGE') + b'\x00', 'signature_extensions'),
                                  ('signature_extensions', P(b'abc') + op('CHECK_TEMPLATE') + b'\x01', 'check_template'),
                                  ('a scope of the embedder\'s own', op('GET_MESSAGE') + b'\x00', 'signature_extensions')):
        CALLS.clear()
        try:
            F.run_script(script_, {'sigfield1': b'abc'}, plugins={given: [PLUGINS['p3']]}, additional_flags={10: False})
        except BaseException as e:
            ctx.violation({**sig, 'clause': 'probe run failed'}, f'history {hist}: {e!r}')
        ctx.ran()
        if sorted(CALLS) != sorted(a['plugins'][scope]):
            ctx.violation({**sig, 'clause': 'registered plugins of a scope the injected dict does not name still run', 'registry': 'plugins',
                           'scope': scope}, f'history {hist}: injected {given!r} only; active {sorted(a["plugins"][scope])}, called {CALLS}')
    # code executed at compile time (~! { }) sees the registries like any other execution
    for cid in (b'c1', b'c2'):
        CALLS.clear()
        try:
            got = P_.compile_script('push ~! { push x00 push x%s invoke }' % cid.hex())
        except BaseException:
            got = None
        ctx.ran()
        want = P_.compile_script('push x41') if a['contracts'].get(cid) == 'A' else None
        if got != want:
            ctx.violation({**sig, 'clause': 'contract used by INVOKE iff active', 'registry': 'contracts', 'inside': 'comptime'},
                          f'history {hist}: {cid!r} active as {a["contracts"].get(cid)}, compile-time INVOKE -> {got}')
    CALLS.clear()
    try:
        P_.compile_script('push ~! { get_message x00 }')
    except BaseException as e:
        pass
    ctx.ran()
    if sorted(CALLS) != sorted(a['plugins']['signature_extensions']):
        ctx.violation({**sig, 'clause': 'active signature-extension plugins run exactly once', 'registry': 'plugins', 'inside': 'comptime'},
                      f'history {hist}: active {sorted(a["plugins"]["signature_extensions"])}, called {CALLS}')
    # contracts reachable iff active
    for cid in (b'c1', b'c2'):
        CALLS.clear()
        try:
            _, st, _ = F.run_script(P(b'\x00') + P(cid) + op('INVOKE'))
            got = 'A' if st.list() == [b'A'] else 'other'
        except BaseException:
            got = None
        ctx.ran()
        want = 'A' if a['contracts'].get(cid) == 'A' else None
        if got != want:
            ctx.violation({**sig, 'clause': 'contract used by INVOKE iff active', 'registry': 'contracts'},
                          f'history {hist}: {cid!r} active as {a["contracts"].get(cid)}, INVOKE -> {got}')
        try:
            _, st, _ = F.run_script(P(b'\x00') + P(b'd') + P(b'') + P(b'\x01') + P(cid) + op('CHECK_TRANSFER'))
            got = 'B' if st.list() == [b'\xff'] else 'other'
        except BaseException:
            got = None
        ctx.ran()
        want = 'B' if a['contracts'].get(cid) == 'B' else None
        if got != want:
            ctx.violation({**sig, 'clause': 'contract used by CHECK_TRANSFER iff active', 'registry': 'contracts'},
                          f'history {hist}: {cid!r} active as {a["contracts"].get(cid)}, CHECK_TRANSFER -> {got}')
    # ... also for the later scripts of an authorization (the locking script is normally the last one)
    for cid in (b'c1', b'c2'):
        CALLS.clear()
        try:
            F.run_auth_scripts([op('TRUE') + op('POP0'), P(b'\x00') + P(cid) + op('INVOKE'), op('TRUE')])
        except BaseException as e:
            ctx.violation({**sig, 'clause': 'probe run failed'}, f'history {hist}: {e!r}')
        ctx.ran()
        want = ['A.abi'] if a['contracts'].get(cid) == 'A' else []
        if CALLS != want:
            ctx.violation({**sig, 'clause': 'contract used by a later script of run_auth_scripts iff active', 'registry': 'contracts'},
                          f'history {hist}: {cid!r} active as {a["contracts"].get(cid)}, calls {CALLS}')
    CALLS.clear()
    try:
        F.run_auth_scripts([op('TRUE') + op('POP0'), op('GET_MESSAGE') + b'\x00' + op('POP0'), op('GET_MESSAGE') + b'\x00'], {'sigfield1': b'abc'})
    except BaseException as e:
        ctx.violation({**sig, 'clause': 'probe run failed'}, f'history {hist}: {e!r}')
    ctx.ran()
    if sorted(CALLS) != sorted(list(a['plugins']['signature_extensions']) * 2):
        ctx.violation({**sig, 'clause': 'active plugins run in every script of run_auth_scripts', 'registry': 'plugins'},
                      f'history {hist}: active {sorted(a["plugins"]["signature_extensions"])}, called {CALLS}')
    # ... and inside bodies: a function defined in one script and called in the next, the probe inside an IF inside it; an
    # evaluated script; a TRY body
    gm = op('GET_MESSAGE') + b'\x00' + op('POP0')
    inner = op('TRUE') + op('IF') + len(gm).to_bytes(2, 'big') + gm
    bodies = [
        ('DEF in script 1, CALL in script 2', [op('DEF') + b'\x00' + len(inner).to_bytes(2, 'big') + inner, op('CALL') + b'\x00' + op('TRUE')], 1),
        ('DEF + CALL twice', [op('DEF') + b'\x00' + len(gm).to_bytes(2, 'big') + gm + (op('CALL') + b'\x00') * 2 + op('TRUE')], 2),
        ('EVAL', [P(gm) + op('EVAL') + op('TRUE')], 1),
        ('TRY', [op('TRY_EXCEPT') + len(gm).to_bytes(2, 'big') + gm + b'\x00\x00' + op('TRUE')], 1),
    ]
    for bname, scripts_, times in bodies:
        CALLS.clear()
        try:
            F.run_auth_scripts(list(scripts_), {'sigfield1': b'abc'})
        except BaseException as e:
            ctx.violation({**sig, 'clause': 'probe run failed'}, f'history {hist}: {bname}: {e!r}')
        ctx.ran()
        if sorted(CALLS) != sorted(list(a['plugins']['signature_extensions']) * times):
            ctx.violation({**sig, 'clause': 'active plugins run inside nested bodies', 'registry': 'plugins', 'inside': bname.split(' ')[0]},
                          f'history {hist}: {bname}: active {sorted(a["plugins"]["signature_extensions"])}, called {CALLS}')
    for cid in (b'c1',):
        inv = P(b'\x00') + P(cid) + op('INVOKE')
        CALLS.clear()
        try:
            F.run_auth_scripts([op('DEF') + b'\x00' + len(inv).to_bytes(2, 'big') + inv, op('CALL') + b'\x00' + op('TRUE')])
        except BaseException as e:
            ctx.violation({**sig, 'clause': 'probe run failed'}, f'history {hist}: {e!r}')
        ctx.ran()
        want = ['A.abi'] if a['contracts'].get(cid) == 'A' else []
        if CALLS != want:
            ctx.violation({**sig, 'clause': 'contract used inside a called function iff active', 'registry': 'contracts'},
                          f'history {hist}: {cid!r} active as {a["contracts"].get(cid)}, calls {CALLS}')
        lb = lambda b: len(b).to_bytes(2, 'big') + b
        fail = op('FALSE') + op('VERIFY')
        for cname, scripts_ in (('EXCEPT', [op('TRY_EXCEPT') + lb(fail) + lb(inv) + op('TRUE')]),
                                ('IF', [op('TRUE') + op('IF') + lb(inv) + op('TRUE')]),
                                ('ELSE', [op('FALSE') + op('IF_ELSE') + lb(b'') + lb(inv) + op('TRUE')]),
                                ('LOOP', [op('TRUE') + op('LOOP') + lb(op('POP0') + inv + op('FALSE')) + op('TRUE')]),
                                ('EVAL in script 2', [op('TRUE') + op('POP0'), P(inv) + op('EVAL') + op('TRUE')]),
                                ('EXCEPT inside a function', [op('DEF') + b'\x00' + lb(op('TRY_EXCEPT') + lb(fail) + lb(inv)) + op('CALL') + b'\x00' + op('TRUE')])):
            CALLS.clear()
            try:
                F.run_auth_scripts(list(scripts_))
            except BaseException as e:
                ctx.violation({**sig, 'clause': 'probe run failed'}, f'history {hist}: {cname}: {e!r}')
            ctx.ran()
            if CALLS != want:
                ctx.violation({**sig, 'clause': 'contract used inside nested bodies iff active', 'registry': 'contracts', 'inside': cname.split(' ')[0]},
                              f'history {hist}: {cid!r} active as {a["contracts"].get(cid)}, inside {cname}: calls {CALLS}')
    # aliases compile iff active
    for al, target in ALIAS_TARGET.items():
        try:
            b = P_.compile_script(al.lower())
        except BaseException:
            b = None
        ctx.ran()
        want = bytes([F.opcodes_inverse[a['aliases'][al]][0]]) if al in a['aliases'] else None
        if b != want:
            ctx.violation({**sig, 'clause': 'alias compiles iff active', 'registry': 'aliases'},
                          f'history {hist}: {al} active={al in a["aliases"]}, compiled {b}')
        # ... right after every statement form whose parsing looks ahead at the next symbol
        if want is not None:
            for pre in LOOKAHEAD_PRE:
                try:
                    b3 = P_.compile_script('%s %s' % (pre, al.lower()))
                    w3 = P_.compile_script(pre) + want
                except BaseException as e:
                    b3, w3 = repr(e), None
                ctx.ran()
                if b3 != w3:
                    ctx.violation({**sig, 'clause': 'alias compiles iff active', 'registry': 'aliases', 'after': pre.split(' ')[0]},
                                  f'history {hist}: {al} after {pre!r}: compiled {b3}')
        # ... in every block body as well
        for kind, src, pre in (('DEF', 'def 0 { %s }', b'\x29\x00\x00\x01'), ('IF', 'if { %s }', b'\x2b\x00\x01'),
                               ('LOOP', 'loop { %s }', b'\x45\x00\x01'), ('TRY', 'try { %s }', b'\x3d\x00\x01')):
            try:
                b2 = P_.compile_script(src % al.lower())
            except BaseException:
                b2 = None
            ctx.ran()
            want2 = (pre + want + (b'\x00\x00' if kind == 'TRY' else b'')) if want is not None else None
            if b2 != want2:
                ctx.violation({**sig, 'clause': 'alias compiles iff active', 'registry': 'aliases', 'inside': kind},
                              f'history {hist}: {al} active={al in a["aliases"]} inside {kind}: compiled {b2}')


MAX_STATES = 3000


class StopExploration(Exception):
    pass


def explore(ctx, case):
    where, ops, max_depth, first = case
    where = 'product' if where.startswith('product') else where
    results = {}

    def on_state(s, k, hist):
        a = alpha(s)
        ctx.state(k)
        if a['dup']:
            ctx.violation({'where': where, 'clause': 'a plugin is registered twice', 'registry': 'plugins'}, f'history {hist}')
        probes(ctx, a, hist, where)
        restore(s)
        if ctx.nviol > 200:
            raise StopExploration()

    def on_edge(s, k, o, result, nxt, nk, hist):
        ctx.trans()
        ctx.ran()
        a = alpha(s)
        if o[0] == 'obs':
            if nk != k:
                changed = [kk for (kk, d1), (_, d2) in zip(s['defaults'], nxt['defaults']) if d1 != d2]
                ctx.violation({'where': where, 'clause': 'observer changed process-global state', 'observer': o[1],
                               'what': 'mutable default argument' if changed else 'registry'},
                              f'history {hist} + {o}: changed {changed or "registries"}')
            key = (o, alpha_key(a))
            if key in results and results[key][0] != result:
                ctx.violation({'where': where, 'clause': 'observer result depends on history, not only on registry contents',
                               'observer': o[1]},
                              f'history {hist} + {o}: {result!r}  vs  {results[key][0]!r} after history {results[key][1]}')
            results.setdefault(key, (result, hist))
            if result[0] == 'ok' and o[1] == 'run' and ('caller dicts unchanged', True) not in result[1]:
                ctx.violation({'where': where, 'clause': 'caller cache / contracts / plugins dicts modified'}, f'history {hist}: {result}')
            return
        want, wres = model_step(a, o)
        got = alpha(nxt)
        if alpha_key(got) != alpha_key(want) or got['dup']:
            ctx.violation({'where': where, 'clause': 'registry is not the set model successor', 'op': o[0]},
                          f'history {hist} + {o}: abstract state {alpha_key(got)} expected {alpha_key(want)}')
        if (result[0] == 'raise') != (wres == 'raise'):
            ctx.violation({'where': where, 'clause': 'accept / reject differs from the set model', 'op': o[0]},
                          f'history {hist} + {o}: {result} expected {wres}')
        # nothing but the addressed registry (and no hidden default) changes
        for (kk, d1), (_, d2) in zip(s['defaults'], nxt['defaults']):
            if d1 != d2:
                ctx.violation({'where': where, 'clause': 'registry call changed a mutable default argument', 'op': o[0]}, f'{kk}')

    s0 = snapshot()
    try:
        if first is not None:
            apply_op(first)
        ex = Explorer(snapshot, restore, canon, ops, apply_op, on_state, on_edge, max_depth=max_depth, max_states=MAX_STATES)
        seen = {}
        try:
            seen = ex.run()
        except StopExploration:
            ex.capped = True
            ctx.count('exploration stopped after 200 violations')
    finally:
        restore(s0)
    if max_depth is None and (ex.capped or not ex.fixpoint):
        # a correct registry (a set over the finite alphabet) has a finite reachable state space: not reaching a fixpoint
        # within the cap means the state space is not the set model's
        ctx.violation({'where': where, 'clause': 'subsystem state space exceeds the set model (no fixpoint)'},
                      f'{ex.states} states explored, cap {MAX_STATES}')
    deepest = max(seen.values(), key=len) if seen else ()
    ctx.sample({'trace (history of real API calls reaching the deepest new state)': [list(map(str, o)) for o in deepest],
                'where': where, 'states': ex.states, 'transitions': ex.transitions})
    ctx.count('fixpoint reached:' + where if ex.fixpoint else 'depth bound hit:' + where)
    ctx.count('max depth ' + where, ex.depth_reached)
    ctx.outcome('%s states=%d' % (where, ex.states))
    ctx.evaluations += ex.transitions


def custom_scope_case(ctx, seq):
    """a plugin scope the embedder invents: every history of add / remove / reset up to length 4 against a set model, observed
    in the registry and in the plugin table a run receives"""
    scope = 'verif_custom_scope'
    snap = snapshot()
    model = []
    try:
        for i, (o, pn) in enumerate(seq):
            p = PLUGINS[pn] if pn else None
            try:
                if o == 'add':
                    F.add_plugin(scope, p)
                    if pn not in model:
                        model.append(pn)
                elif o == 'remove':
                    F.remove_plugin(scope, p)
                    if pn in model:
                        model.remove(pn)
                else:
                    F.reset_plugins(scope)
                    model = []
            except BaseException as e:
                if o == 'add':
                    ctx.violation({'clause': 'registry is not the set model successor', 'where': 'custom scope', 'op': o}, f'{seq[:i + 1]}: {e!r}')
                    return
                continue      # removing from / resetting a scope that does not exist yet may be refused
            ctx.ran()
            ctx.trans()
            reg = [PLUGIN_NAME.get(id(x), '?') for x in F._plugins.get(scope, [])] if 'PLUGIN_NAME' in globals() else None
            try:
                tape, _, _ = F.run_script(op('TRUE'))
                seen = list(tape.plugins.get(scope, []))
            except BaseException as e:
                seen = repr(e)
            names = sorted(n for n in ('p1', 'p2', 'p3') if any(x is PLUGINS[n] or x == PLUGINS[n] for x in (seen if isinstance(seen, list) else [])))
            ctx.state(('custom-scope', tuple(seq[:i + 1])))
            ctx.outcome('custom:%d' % len(names))
            if names != sorted(model):
                ctx.violation({'clause': 'registry is not the set model successor', 'where': 'custom scope', 'op': o},
                              f'history {seq[:i + 1]}: a run sees {names}, model {sorted(model)}')
                return
    finally:
        restore(snap)


def blocks(tier, seed):
    q = tier == 'quick'
    allops = ops_plugins() + ops_contracts() + ops_aliases() + OBSERVERS
    d = 4 if q else 6
    cases = [
        ('plugins subsystem', ops_plugins() + OBSERVERS, None, None),
        ('contracts+interfaces subsystem', ops_contracts() + OBSERVERS, None, None),
        ('aliases subsystem', ops_aliases() + OBSERVERS, None, None),
    ]
    prod = [('product after %r' % (o,), allops, d - 1, o) for o in allops]
    cops = [('add', 'p1'), ('add', 'p2'), ('remove', 'p1'), ('remove', 'p2'), ('reset', None)]
    cseqs = [seq for n in range(1, 5) for seq in itertools.product(cops, repeat=n)]
    return [
        Block('custom_plugin_scope', cseqs, custom_scope_case, 'every history of <= 4 add / remove / reset operations on a scope the '
              'embedder invents (%d histories)' % len(cseqs), nshards=32),
        Block('subsystem_fixpoints', cases, explore, 'each registry subsystem explored to a fixpoint (all histories of any length)',
              nshards=len(cases), backstop=7200),
        Block('full_product_bounded', prod, explore,
              'all %d operations (registry calls + observers) in every order up to length %d' % (len(allops), d), nshards=len(prod), backstop=7200),
    ]


def meta(tier, seed):
    q = tier == 'quick'
    return dict(
        rule='BFS over the real registry API with canonical snapshots of all process-global mutable state (%d mutable default arguments '
             'found by introspection); invariants on every state and edge against a set model' % len(DEFAULTS),
        states_meaning='distinct canonical snapshots of the package\'s global state (plugin list order and hidden defaults included); '
                       'transitions = API calls executed',
        bounds={'product_depth': 4 if q else 6, 'plugins': 3, 'scopes': 2, 'contracts': 2, 'interfaces': 4, 'aliases': 2,
                'subsystems': 'fixpoint'},
        assumptions=['the "random longer histories" clause is replaced by per-subsystem fixpoints, which cover histories of any length '
                     'inside a subsystem; cross-subsystem interference is explored to the product depth bound',
                     'aliases can only be added (the API has no removal)'],
    )
