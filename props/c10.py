"""C10 - integer and float encodings are exact inverses at every magnitude.

Every case is a concrete value (or byte pattern) pushed through the real codec
functions of tapescript.functions and judged by an independent codec
(int.from_bytes(..., signed=True) and a bit-level float32 decoder built on
math.ldexp; struct is never used by the oracle).
"""
import math

from mc import env
from mc.run import Block, sharded

F = env.functions
SEE = F.__dict__.get('ScriptExecutionError') or env.errors.ScriptExecutionError


# ---------------------------------------------------------------- oracles
def ref_f32(p):
    """bit pattern (int, 32 bit) -> python float, or None for NaN"""
    s = -1.0 if p >> 31 else 1.0
    e = (p >> 23) & 0xff
    m = p & 0x7fffff
    if e == 0xff:
        return None if m else s * math.inf
    if e == 0:
        return s * math.ldexp(m, -149)
    return s * math.ldexp(m | 0x800000, e - 150)


def same_float(a, b):
    return a == b and math.copysign(1.0, a) == math.copysign(1.0, b)


def check_int(ctx, n):
    ctx.state(('i', n))
    ctx.ran()
    try:
        b = F.int_to_bytes(n)
    except BaseException as e:
        ctx.violation({'fn': 'int_to_bytes', 'clause': 'raises'}, f'int_to_bytes({n}) raised {e!r}')
        return
    ctx.trans()
    if type(b) is not bytes or len(b) == 0:
        ctx.violation({'fn': 'int_to_bytes', 'clause': 'returns non-empty bytes'}, f'n={n} -> {b!r}')
        return
    if int.from_bytes(b, 'big', signed=True) != n:
        ctx.violation({'fn': 'int_to_bytes', 'clause': 'two\'s complement value'},
                      f'n={n} encoded {b.hex()} decodes (independent) to '
                      f'{int.from_bytes(b, "big", signed=True)}')
    if (b[0] >> 7 == 1) != (n < 0):
        ctx.violation({'fn': 'int_to_bytes', 'clause': 'top bit is sign'}, f'n={n} -> {b.hex()}')
    try:
        back = F.bytes_to_int(b)
        ctx.trans()
    except BaseException as e:
        ctx.violation({'fn': 'bytes_to_int', 'clause': 'raises on encoder output'}, f'n={n}: {e!r}')
        return
    if back != n:
        ctx.violation({'fn': 'roundtrip', 'clause': 'bytes_to_int(int_to_bytes(n)) == n'},
                      f'n={n} -> {b.hex()} -> {back}')
    ctx.outcome('int:len%d' % min(len(b), 9) if len(b) < 9 else 'int:long')
    if n >= 0:
        # the (deprecated) unsigned encoder: big-endian, decodes unsigned to n
        try:
            u = F.uint_to_bytes(n)
            ctx.trans()
            if type(u) is not bytes or len(u) == 0 or int.from_bytes(u, 'big') != n:
                ctx.violation({'fn': 'uint_to_bytes', 'clause': 'unsigned big-endian value'}, f'n={n} -> {u!r}')
        except BaseException as e:
            ctx.violation({'fn': 'uint_to_bytes', 'clause': 'raises'}, f'n={n}: {e!r}')


def check_decode(ctx, b):
    ctx.state(('b', b))
    ctx.ran()
    try:
        v = F.bytes_to_int(b)
        ctx.trans()
    except BaseException as e:
        ctx.violation({'fn': 'bytes_to_int', 'clause': 'total on non-empty'}, f'{b.hex()[:80]}: {e!r}')
        return
    if v != int.from_bytes(b, 'big', signed=True):
        ctx.violation({'fn': 'bytes_to_int', 'clause': 'two\'s complement value'},
                      f'{b.hex()[:80]} -> {v}')
    ctx.outcome('dec:neg' if v < 0 else 'dec:nonneg')


def check_float(ctx, p):
    pat = p.to_bytes(4, 'big')
    ctx.ran()
    try:
        x = F.bytes_to_float(pat)
        ctx.trans()
    except BaseException as e:
        ctx.violation({'fn': 'bytes_to_float', 'clause': 'total on 4 bytes'}, f'{pat.hex()}: {e!r}')
        return
    want = ref_f32(p)
    if want is None:
        if not (type(x) is float and x != x):
            ctx.violation({'fn': 'bytes_to_float', 'clause': 'NaN pattern decodes to NaN'},
                          f'{pat.hex()} -> {x!r}')
            return
        try:
            back = F.float_to_bytes(x)
            ctx.trans()
        except BaseException as e:
            ctx.violation({'fn': 'float_to_bytes', 'clause': 'NaN encodes'}, f'{e!r}')
            return
        q = int.from_bytes(back, 'big')
        if len(back) != 4 or ref_f32(q) is not None:
            ctx.violation({'fn': 'float_to_bytes', 'clause': 'NaN encodes to a NaN pattern'},
                          f'{pat.hex()} -> {back.hex()}')
        elif q not in (p, p | 0x00400000):
            # sign and payload survive; a signalling NaN may come back quiet (the float32 <-> double conversion of the
            # host sets the quiet bit), which is the only tolerated difference
            ctx.violation({'fn': 'float_to_bytes', 'clause': 'bit-exact round trip', 'class': 'NaN'},
                          f'{pat.hex()} -> NaN -> {back.hex()}')
        ctx.outcome('f:nan')
        return
    if type(x) is not float or not same_float(x, want):
        ctx.violation({'fn': 'bytes_to_float', 'clause': 'value'}, f'{pat.hex()} -> {x!r}, want {want!r}')
        return
    try:
        back = F.float_to_bytes(want)
        ctx.trans()
    except BaseException as e:
        ctx.violation({'fn': 'float_to_bytes', 'clause': 'raises on representable float'},
                      f'{want!r}: {e!r}')
        return
    if back != pat:
        ctx.violation({'fn': 'float_to_bytes', 'clause': 'bit-exact round trip'},
                      f'{pat.hex()} -> {want!r} -> {back.hex()}')


# ---------------------------------------------------------------- blocks
def _ints_small(ctx, rng):
    lo, hi = rng
    for n in range(lo, hi):
        check_int(ctx, n)
        ctx.evaluations += 1
    ctx.evaluations -= 1


def _pow2(ctx, k):
    for d in range(-3, 4):
        for s in (1, -1):
            check_int(ctx, s * ((1 << k) + d))
    ctx.evaluations += 13


def _twobit(ctx, a):
    one = 1 << a
    for b in range(a):
        t = 1 << b
        for n in (one + t, one - t):
            check_int(ctx, n)
            check_int(ctx, -n)
    ctx.evaluations += 4 * a - 1


TOP64 = []
for _base in (0x7fffffffffffffff, 0x8000000000000000, 0xffffffffffffffff, 0x8000000000000001,
              0x7ffffffffffffffe, 0xfffffffffffffffe, 0x0100000000000000, 0x00ffffffffffffff,
              0x0080000000000000, 0x007fffffffffffff, 0x001fffffffffffff, 0x0020000000000000,
              0x003fffffffffffff, 0x0040000000000000, 0xc000000000000000, 0xbfffffffffffffff):
    for _v in (_base, _base ^ 1, _base ^ (1 << 10), _base ^ (1 << 11)):
        TOP64.append(_v)


def _top64(ctx, nbytes):
    for top in TOP64:
        if nbytes <= 8:
            v = top >> (8 * (8 - nbytes))
            if v == 0:
                continue
            for n in (v, -v):
                check_int(ctx, n)
        else:
            sh = 8 * (nbytes - 8)
            for fill in (0, (1 << sh) - 1):
                v = (top << sh) | fill
                for n in (v, -v):
                    check_int(ctx, n)
        ctx.evaluations += 1
    ctx.evaluations -= 1


def _dec_short(ctx, hi):
    check_decode(ctx, bytes([hi]))
    for lo in range(256):
        check_decode(ctx, bytes([hi, lo]))
    ctx.evaluations += 256


def _dec_long(ctx, ln):
    for ss in range(256):
        for fill in (0, 0xff):
            check_decode(ctx, bytes([ss]) + bytes([fill]) * (ln - 1))
    ctx.evaluations += 511


def _float_family_quick():
    """every sign x every exponent x mantissas with <=2 set bits and their complements"""
    mants = {0, 0x7fffff}
    for i in range(23):
        mants.add(1 << i)
        mants.add(0x7fffff ^ (1 << i))
        for j in range(i):
            mants.add((1 << i) | (1 << j))
            mants.add(0x7fffff ^ ((1 << i) | (1 << j)))
    return sorted(mants)


_MANTS = None


def _floats_exp(ctx, se):
    global _MANTS
    if _MANTS is None:
        _MANTS = _float_family_quick()
    base = se << 23
    st = set()
    for m in _MANTS:
        check_float(ctx, base | m)
        st.add(hash(('f', base | m)))
    ctx.states |= st
    ctx.evaluations += len(_MANTS) - 1
    ctx.outcome('f:exp%d' % (se & 0xff) if (se & 0xff) in (0, 255) else 'f:normal')


def _floats_all(ctx, hi16):
    """all 65536 patterns with the given upper 16 bits; inlined for speed"""
    b2f, f2b, ref = F.bytes_to_float, F.float_to_bytes, ref_f32
    base = hi16 << 16
    bad = 0
    for lo in range(65536):
        p = base | lo
        pat = p.to_bytes(4, 'big')
        want = ref(p)
        try:
            x = b2f(pat)
            if want is None:
                ok = x != x
            else:
                ok = x == want and f2b(want) == pat and (want != 0.0 or
                                                         math.copysign(1.0, x) == math.copysign(1.0, want))
        except BaseException:
            ok = False
        if not ok:
            bad += 1
            if bad <= 3:
                check_float(ctx, p)  # produces the detailed violation
                if not ctx.nviol:
                    ctx.violation({'fn': 'float codec', 'clause': 'fast path / slow path disagree'}, hex(p))
    ctx.executions += 65536
    ctx.transitions += 2 * 65536
    ctx.evaluations += 65535
    ctx.counters['float_patterns_all'] += 65536
    ctx.state(('fblock', hi16))
    ctx.outcome('f:block')


# call histories: the result of a codec call must not depend on earlier calls --------------------------------
SPECIAL_FLOATS = [0.0, -0.0, 1.0, -1.0, 0.5, float('inf'), float('-inf')]
SPECIAL_ARGS = {
    'float_to_bytes': SPECIAL_FLOATS + [1, 0, True, False],
    'int_to_bytes': [0, 1, -1, 255, 256, True, False, 1.0, 0.0, -0.0],
    'bytes_to_int': [b'\x00', b'\x01', b'\x80', b'\xff', b'\x00\x01', bytearray(b'\x01'), b''],
    'bytes_to_float': [b'\x00\x00\x00\x00', b'\x80\x00\x00\x00', b'\x3f\x80\x00\x00', bytearray(b'\x3f\x80\x00\x00'), b'\x00'],
    'bytes_to_bool': [b'', b'\x00', b'\x01', b'\x00\x00', b'\x00\x80'],
}


def _call(fn, arg):
    try:
        r = getattr(F, fn)(arg)
        return ('ok', type(r).__name__, r.hex() if isinstance(r, bytes) else repr(r))
    except BaseException as e:
        return ('raise', type(e).__name__)


def _expected(fn, arg):
    """fresh-call expectation from the statement (type checked arguments, exact bit patterns)"""
    if fn == 'float_to_bytes':
        if type(arg) is not float:
            return ('raise', 'TypeError')
        p = struct_free_f32(arg)
        return ('ok', 'bytes', p.hex())
    if fn == 'int_to_bytes':
        if type(arg) is not int:
            return ('raise', 'TypeError')
        return ('ok', 'bytes', enc_ref(arg).hex())
    if fn == 'bytes_to_int':
        if type(arg) is not bytes:
            return ('raise', 'TypeError')
        if len(arg) == 0:
            return ('raise', 'ValueError')
        return ('ok', 'int', repr(int.from_bytes(arg, 'big', signed=True)))
    if fn == 'bytes_to_float':
        if type(arg) is not bytes:
            return ('raise', 'TypeError')
        if len(arg) != 4:
            return ('raise', 'ValueError')
        return ('ok', 'float', repr(ref_f32(int.from_bytes(arg, 'big'))))
    if fn == 'bytes_to_bool':
        return ('ok', 'bool', repr(any(arg)))


def struct_free_f32(x):
    from ref import refvm
    return refvm.f32_encode(x)


def _histories(ctx, fn):
    import itertools
    args = SPECIAL_ARGS[fn]
    n = 0
    for hist in itertools.permutations(range(len(args)), 3):
        for i in hist:
            n += 1
            got = _call(fn, args[i])
            want = _expected(fn, args[i])
            ctx.ran()
            ctx.trans()
            if got != want:
                ctx.violation({'fn': fn, 'clause': 'result depends on earlier calls / differs from a fresh call'},
                              f'{fn}({args[i]!r}) after calls on {[args[j] for j in hist]}: {got} expected {want}')
        ctx.state((fn, hist))
    ctx.evaluations += n - 1


# instruction level ---------------------------------------------------------
def boundary_ints(maxbits):
    vals = {0, 1, -1, 2, -2, 3, -3, 127, 128, -128, -129, 255, 256, -255, -256, -257}
    for k in (15, 16, 31, 32, 53, 54, 55, 56, 62, 63, 64, 127, 128, 255, 256, 1023, 1024, 4094, 4095, 4096, 4097, maxbits - 9,
              maxbits - 8, maxbits - 2, maxbits - 1):
        for d in (-1, 0, 1):
            v = (1 << k) + d
            vals.add(v)
            vals.add(-v)
    return sorted(vals, key=lambda v: (abs(v), v))


OPS = {
    'ADD_INTS': (b'\x0e\x02', lambda a, b: [a + b]),
    'SUBTRACT_INTS': (b'\x0f\x02', lambda a, b: [a - b]),
    'MULT_INTS': (b'\x10\x02', lambda a, b: [a * b]),
    'DIV_INTS': (b'\x12', lambda a, b: None if b == 0 else [a // b]),      # floored (standing decision, DESIGN 2.4)
    'MOD_INTS': (b'\x14', lambda a, b: None if b == 0 else [a % b]),
    'LESS': (b'\x3e', lambda a, b: [a < b]),
    'LESS_OR_EQUAL': (b'\x3f', lambda a, b: [a <= b]),
}
MAX_ITEM = 1024


def enc_ref(n):
    ln = (n.bit_length() + 8) // 8 if n >= 0 else ((-n - 1).bit_length() + 8) // 8
    return n.to_bytes(max(ln, 1), 'big', signed=True)


def push(b):
    if len(b) < 256:
        return b'\x03' + bytes([len(b)]) + b
    return b'\x04' + len(b).to_bytes(2, 'big') + b


_BI = None


def _instr(ctx, a):
    """a = top operand; all second operands; all ops. Operands are pushed in the
    reference minimal two's complement encoding (independent of int_to_bytes)."""
    global _BI
    if _BI is None:
        _BI = boundary_ints(8 * MAX_ITEM - 8)
    ea = enc_ref(a)
    for b in _BI:
        eb = enc_ref(b)
        forms = [(name, push(eb) + push(ea) + code, ref) for name, (code, ref) in OPS.items()]
        if len(eb) < 256:
            # the tape-operand forms: one unsigned length byte, then the signed divisor (up to 255 bytes)
            forms.append(('DIV_INT', push(ea) + b'\x11' + bytes([len(eb)]) + eb, OPS['DIV_INTS'][1]))
            forms.append(('MOD_INT', push(ea) + b'\x13' + bytes([len(eb)]) + eb, OPS['MOD_INTS'][1]))
        if b == a or b == -a or b == a + 1:
            # non-minimal (sign-extended) encodings of either operand denote the same integers
            ext = lambda e: (b'\xff' if e[0] & 0x80 else b'\x00') + e
            if len(ea) + 2 <= MAX_ITEM and len(eb) + 2 <= MAX_ITEM:
                for name, (code, ref_) in OPS.items():
                    forms.append((name, push(ext(eb)) + push(ea) + code, ref_))
                    forms.append((name, push(eb) + push(ext(ea)) + code, ref_))
                    forms.append((name, push(ext(ext(eb))) + push(ext(ea)) + code, ref_))
        if len(enc_ref(a * b)) > MAX_ITEM:
            # only the result has to fit: an oversize intermediate product times zero is zero (both operand orders)
            zero = lambda x, y: [0]
            forms.append(('MULT_INTS', push(b'\x00') + push(eb) + push(ea) + b'\x10\x03', zero))
            forms.append(('MULT_INTS', push(eb) + push(ea) + push(b'\x00') + b'\x10\x03', zero))
        for name, script, ref in forms:
            want = ref(a, b)
            ctx.ran()
            try:
                _, stack, _ = F.run_script(script)
                items = stack.list()
                raised = None
            except BaseException as e:
                raised, items = e, None
            ctx.trans()
            if want is None:
                if raised is None:
                    ctx.violation({'op': name, 'clause': 'division by zero is an error'},
                                  f'a={a} b={b} -> {items}')
                ctx.outcome(name + ':div0')
                continue
            if name.startswith('LESS'):
                if raised is not None or items != [b'\xff' if want[0] else b'\x00']:
                    ctx.violation({'op': name, 'clause': 'comparison result'},
                                  f'top={a} second={b} -> {raised!r} {items}')
                ctx.outcome(name + ':' + str(want[0]))
                continue
            fits = any(len(enc_ref(w)) <= MAX_ITEM for w in want)
            toolong = all(len(enc_ref(w)) > MAX_ITEM + 1 for w in want)
            if raised is not None:
                if fits and not isinstance(raised, SEE):
                    ctx.violation({'op': name, 'clause': 'exact result when it fits the item limit'},
                                  f'top={a} second={b}: raised {raised!r}')
                elif fits:
                    # minimal result fits but impl may have used one byte more: tolerated only
                    # when the minimal length is exactly the limit
                    if all(len(enc_ref(w)) < MAX_ITEM for w in want):
                        ctx.violation({'op': name, 'clause': 'exact result when it fits the item limit'},
                                      f'top={a} second={b}: raised {raised!r}')
                ctx.outcome(name + ':raised')
                continue
            if toolong:
                ctx.violation({'op': name, 'clause': 'result over item limit must raise'},
                              f'top={a} second={b} -> {len(items[-1])} bytes')
                continue
            if len(items) != 1 or len(items[0]) == 0 or \
                    int.from_bytes(items[0], 'big', signed=True) not in want:
                ctx.violation({'op': name, 'clause': 'exact big-int result'},
                              f'top={a} second={b} -> {[i.hex()[:60] for i in items]} want {want}')
            ctx.outcome(name + ':ok')
    ctx.evaluations += len(_BI) * (len(OPS) + 2) - 1


BIG_LIMIT = 8192


def _instr_big(ctx, k):
    """embedder raised stack_max_item_size to 8192 bytes: operands of 2^k + d bits well above the default limit (and above
    the host's 4300-digit int <-> str conversion limit, which is left at its default while the instructions run)"""
    import sys
    n = 0
    old = sys.get_int_max_str_digits()
    sys.set_int_max_str_digits(4300)
    try:
        for sa in (1, -1):
            for d in (-1, 0, 1):
                a = sa * ((1 << k) + d)
                ea = enc_ref(a)
                for b in (1, -1, 2, 3, -7, (1 << 64) + 1, -(1 << (k // 2)), a):
                    eb = enc_ref(b)
                    forms = [(name, push(eb) + push(ea) + code, ref) for name, (code, ref) in OPS.items()]
                    if len(eb) < 256:
                        forms.append(('DIV_INT', push(ea) + b'\x11' + bytes([len(eb)]) + eb, OPS['DIV_INTS'][1]))
                        forms.append(('MOD_INT', push(ea) + b'\x13' + bytes([len(eb)]) + eb, OPS['MOD_INTS'][1]))
                    for name, script, ref in forms:
                        n += 1
                        want = ref(a, b)
                        ctx.ran()
                        try:
                            _, stack, _ = F.run_script(script, stack_max_item_size=BIG_LIMIT)
                            items, raised = stack.list(), None
                        except BaseException as e:
                            raised, items = e, None
                        ctx.trans()
                        ctx.outcome('big:' + name + (':raised' if raised is not None else ':ok'))
                        tag = f'top=sign{sa}*(2^{k}{d:+d}) second bits={b.bit_length()} sign={1 if b > 0 else -1}'
                        if name.startswith('LESS'):
                            if raised is not None or items != [b'\xff' if want[0] else b'\x00']:
                                ctx.violation({'op': name, 'clause': 'comparison result', 'limit': 'raised'}, f'{tag}: {type(raised).__name__}')
                            continue
                        fits = len(enc_ref(want[0])) < BIG_LIMIT
                        if fits and (raised is not None or len(items) != 1 or int.from_bytes(items[0], 'big', signed=True) != want[0]):
                            ctx.violation({'op': name, 'clause': 'exact result when it fits the item limit', 'limit': 'raised'},
                                          f'{tag}: {type(raised).__name__ if raised is not None else "wrong value"}')
    finally:
        sys.set_int_max_str_digits(old)
    ctx.evaluations += n - 1


def O(name):
    return bytes([F.opcodes_inverse['OP_' + name][0]])


def _counts(ctx, case):
    """instructions that put a length or a count on the stack: the item decodes (signed) to exactly that number, also when a
    later integer instruction consumes it; instructions that take a length / index from the stack decode it the same way"""
    kind, n = case
    kw = {}
    cache = {}
    big = n > 1000
    if kind == 'SIZE':
        script = push(b'\x5a' * n) + O('SIZE')
        if big:
            kw = dict(stack_max_item_size=n + 8)
    elif kind == 'DEPTH':
        script = O('TRUE') * n + O('DEPTH')
        if big:
            kw = dict(stack_max_items=n + 8)
    elif kind == 'READ_CACHE_SIZE':
        cache = {b'k': [b'\x01'] * n}
        script = O('READ_CACHE_SIZE') + b'\x01k'
    elif kind == 'READ_CACHE_STACK_SIZE':
        cache = {b'k': [b'\x01'] * n}
        script = push(b'k') + O('READ_CACHE_STACK_SIZE')
    elif kind == 'FLOAT_TO_INT':
        import struct
        script = push(struct.pack('!f', float(n))) + O('FLOAT_TO_INT')
        if n != int(struct.unpack('!f', struct.pack('!f', float(n)))[0]):
            return
    elif kind == 'SPLIT':
        script = push(b'\x5a' * 600) + push(enc_ref(n)) + O('SPLIT') + O('SIZE')
    elif kind == 'SIZE2':      # an item longer than a single push can make
        script = push(b'\x5a' * 40000) + push(b'\x5a' * (n - 40000)) + O('CONCAT') + O('SIZE')
        kw = dict(stack_max_item_size=n + 8)
    elif kind == 'RANDOM':
        script = push(enc_ref(n)) + O('RANDOM') + O('SIZE')
    else:
        raise ValueError(kind)
    want = 600 - n if kind == 'SPLIT' else n
    for tail, add in ((b'', 0), (push(b'\x01') + O('ADD_INTS') + b'\x02', 1), (push(b'\xff') + O('ADD_INTS') + b'\x02', -1)):
        ctx.ran()
        ctx.trans()
        try:
            _, stack, _ = F.run_script(script + tail, dict(cache), **kw)
            items, raised = stack.list(), None
        except BaseException as e:
            items, raised = None, e
        ctx.outcome('count:%s:%s' % (kind, 'raised' if raised is not None else 'ok'))
        if raised is not None or not items or len(items[-1]) == 0 or int.from_bytes(items[-1], 'big', signed=True) != want + add:
            ctx.violation({'op': kind, 'clause': 'a length / count put on the stack decodes to that number'},
                          f'{kind} of {n}{" then ADD_INTS with %+d" % add if add else ""}: '
                          f'{type(raised).__name__ if raised is not None else [i.hex()[:20] for i in items[-2:]]} (want {want + add})')
    ctx.evaluations += 2


def _literals(ctx, n):
    """a decimal literal in a source denotes exactly that integer wherever the language takes one: PUSH (all sizes), the explicit
    PUSH1 / PUSH2 forms, the tape divisors of DIV_INT / MOD_INT, a variable assignment - however many digits it has"""
    P_ = env.parsing
    e = enc_ref(n)
    cnt = 0
    forms = [('OP_PUSH d%d' % n, 'stack'), ('push d%d' % n, 'stack'), ('@= v [ d%d ] @v' % n, 'stack')]
    if len(e) <= 255:
        forms += [('OP_PUSH1 d%d' % n, 'stack'), ('OP_DIV_INT d%d' % n, 'lv1'), ('OP_MOD_INT d%d' % n, 'lv1')]
    if len(e) <= 65535:
        forms += [('OP_PUSH2 d%d' % n, 'stack')]
    for src, where in forms:
        cnt += 1
        ctx.ran()
        ctx.trans()
        try:
            b = P_.compile_script(src)
        except BaseException as ex:
            ctx.outcome('literal:rejected')
            if where == 'stack' and src.startswith(('OP_PUSH d', 'push d')) and len(e) <= 1025:
                ctx.violation({'op': 'PUSH', 'clause': 'decimal literal is accepted'}, f'{src[:60]}: {ex!r}')
            continue
        if where == 'lv1':
            payload = b[2:2 + b[1]]
            got = int.from_bytes(payload, 'big', signed=True) if payload else None
        else:
            try:
                _, stack, _ = F.run_script(b, stack_max_item_size=max(MAX_ITEM, len(e) + 8))
                items = stack.list()
                got = int.from_bytes(items[-1], 'big', signed=True) if items and len(items[-1]) else None
            except BaseException as ex:
                got = repr(ex)
        ctx.outcome('literal:ok')
        if got != n:
            ctx.violation({'op': src.split(' ')[0].upper().replace('OP_', ''), 'clause': 'a decimal literal denotes exactly that integer'},
                          f'{src[:80]} -> {b.hex()[:80]}: denotes {str(got)[:60]}')
    ctx.evaluations += cnt - 1


def blocks(tier, seed):
    q = tier == 'quick'
    bl = []
    step = 4096
    rngs = [(lo, min(lo + step, (1 << 17) + 1)) for lo in range(-(1 << 17), (1 << 17) + 1, step)]
    bl.append(Block('ints_small_exhaustive', rngs, _ints_small,
                    'every n in [-2^17, 2^17]'))
    bl.append(Block('ints_pow2_pm3', list(range(0, 16385)), _pow2,
                    '+-(2^k + d), k<=16384, |d|<=3'))
    bl.append(Block('ints_two_bit', list(range(1, 513 if q else 2049)), _twobit,
                    '+-(2^a +- 2^b), b<a<=%d' % (512 if q else 2048)))
    bl.append(Block('ints_top64_patterns', list(range(1, 1025)), _top64,
                    '64 binade-edge top-word patterns x byte length 1..1024 x fill 00/ff x sign'))
    bl.append(Block('decode_1_2_bytes', list(range(256)), _dec_short, 'every 1- and 2-byte string'))
    bl.append(Block('decode_long_fill', list(range(2, 1025)), _dec_long,
                    'ss||00.. and ss||ff.. for every leading byte, length 2..1024'))
    bl.append(Block('floats_structured', list(range(512)), _floats_exp,
                    'every sign x exponent x mantissa with <=2 set or clear bits'))
    if not q:
        bl.append(Block('floats_all_2^32', list(range(65536)), _floats_all,
                        'all 2^32 float32 bit patterns', nshards=256, backstop=3600))
    bl.append(Block('codec_call_histories', list(SPECIAL_ARGS), _histories,
                    'every ordered triple of calls over values that compare equal but encode differently (0.0/-0.0, 1/True/1.0, bytes/bytearray)',
                    nshards=len(SPECIAL_ARGS)))
    bi = boundary_ints(8 * MAX_ITEM - 8)
    bl.append(Block('int_instructions', bi if not q else bi[:len(bi)], _instr,
                    'ADD SUB MULT DIV MOD LESS LEQ (and the tape-operand DIV_INT / MOD_INT for divisors <= 255 bytes) on all ordered pairs of boundary ints'))
    bl.append(Block('int_instructions_raised_item_limit', [8200, 14284, 14285, 14286, 16384, 32768, 60000], _instr_big,
                    'stack_max_item_size raised to 8192: operands +-(2^k + d), k up to 60000, x 8 second operands x all int instructions; '
                    'host int<->str digit limit at its default', nshards=7))
    lits = sorted(set(boundary_ints(8 * 255 - 8)) | {10 ** k + d for k in (15, 16, 17, 18, 19, 20, 30, 100, 300) for d in (-1, 0, 1, 7)} |
                  {-(10 ** k + 7) for k in (16, 17, 30)} | {(1 << 53) + d for d in range(-3, 12)} | {-((1 << 53) + d) for d in range(-3, 12)} |
                  {(1 << 64) + 3, (1 << 63) + 5, 3 * (1 << 60) + 1, (1 << 200) + 12345} |
                  # encodings of exactly w bytes around the size classes of the push instructions (255 | 256, and the default item limit)
                  {v for w in (254, 255, 256, 257, 258, 1023, 1024, 1025) for v in
                   ((1 << (8 * w - 2)) + 1, -(1 << (8 * w - 2)) - 1, (1 << (8 * w - 1)) - 1, -(1 << (8 * w - 1)))})
    bl.append(Block('decimal_literals_through_the_compiler', lits, _literals,
                    'PUSH / PUSH1 / PUSH2 / DIV_INT / MOD_INT / variable assignment with decimal literals at every encoding boundary, around 2^53 '
                    '(each of 2^53-3..2^53+11), powers of ten +-1 up to 10^300', nshards=32))
    edge = (32767, 32768, 32769, 65535, 65536)
    cc = [('SIZE', n) for n in list(range(0, 1001)) + list(edge[:4])] + [('SIZE2', 65536), ('SIZE2', 65537)] + [('DEPTH', n) for n in list(range(0, 1001)) + list(edge)] + \
        [(k, n) for k in ('READ_CACHE_SIZE', 'READ_CACHE_STACK_SIZE') for n in list(range(0, 300)) + list(edge)] + \
        [('FLOAT_TO_INT', n) for n in list(range(0, 300)) + list(edge) + [8388607, 8388608, 16777215]] + \
        [('SPLIT', n) for n in range(0, 600)] + [('RANDOM', n) for n in range(0, 1001)]
    bl.append(Block('lengths_and_counts', cc, _counts,
                    'SIZE / DEPTH for every length / item count 0..1000 and around 2^15 and 2^16 (raised limits), READ_CACHE_SIZE / '
                    'READ_CACHE_STACK_SIZE 0..299 and the same edges, FLOAT_TO_INT, and the length-consuming SPLIT / RANDOM; '
                    'each alone and followed by ADD_INTS with +1 / -1', nshards=64))
    return bl


def meta(tier, seed):
    return dict(
        rule='complete structured families of integers / byte strings / float32 patterns; each '
             'case runs the real codec functions (and run_script for the instruction block) and is '
             'judged by an independent two\'s-complement / bit-level float decoder',
        states_meaning='distinct input values pushed through the codec (floats_all block counted per '
                       '65536-pattern block); transitions = codec calls / instructions executed',
        bounds={'ints_small': '[-2^17,2^17]', 'pow2_k_max': 16384,
                'two_bit_a_max': 512 if tier == 'quick' else 2048,
                'floats': 'structured family' + ('' if tier == 'quick' else ' + all 2^32 patterns'),
                'max_item_size': MAX_ITEM},
        assumptions=['the "random integers up to 8192 bits" clause is replaced by complete structured '
                     'families (two-bit, run-of-ones, binade-edge top words at every byte length)',
                     'NaN: sign and payload must round-trip; only the quiet bit of a signalling NaN may change (host float32<->double conversion)',
                     'DIV/MOD on mixed-sign operands: floored (Python // and %), the convention of the pinned implementation (standing decision, DESIGN 2.4)'],
    )
