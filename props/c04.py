"""C04 - merklized scripts: only committed branches run, and every committed branch can.

All binary tree shapes up to a leaf bound are built with the real tree classes; for every
leaf the generated unlocking script + the root locking script is run with a recording contract
(first instruction of every leaf) and judged by an independently recomputed merkle model; every
enumerated proof corruption must be rejected before any leaf instruction runs.
"""
import hashlib
import itertools

from mc import env
from mc.diff import ref_auth
from mc.run import Block
from ref.optable import op, push

F, T = env.functions, env.tools
CID = b'recorder'
LIMITS = dict(stack_max_items=1024, stack_max_item_size=8192, callstack_limit=128)


class Recorder:
    def __init__(self):
        self.log = []

    def abi(self, args):
        self.log.append(args[0] if args else None)
        return None


def P(b):
    return push(b) if len(b) else b'\x03\x00'


ENDINGS = [op('TRUE'), op('FALSE'), op('FALSE') + op('VERIFY'), P(b'junk') + op('TRUE')]


def leaf_script(i):
    """record i via INVOKE, then an ending that makes the verdict the leaf's own"""
    return P(bytes([i])) + P(b'\x01') + P(CID) + op('INVOKE') + ENDINGS[i % 4] + (P(bytes([0xa0 + i % 16, i])) + op('POP0')) + \
        op('GET_MESSAGE') + b'\x00' + op('POP0')


def own_verdict(i):
    return i % 4 == 0


def sha(b):
    return hashlib.sha256(b).digest()


def xor(a, b):
    return bytes(x ^ y for x, y in zip(a, b))


# ---------------------------------------------------------------- shapes
def shapes(n):
    """all full binary tree shapes with n leaves, as nested tuples of leaf indices"""
    def build(lo, hi):
        if hi - lo == 1:
            yield lo
            return
        for mid in range(lo + 1, hi):
            for l in build(lo, mid):
                for r in build(mid, hi):
                    yield (l, r)
    return build(0, n)


def ref_commit(shape):
    """independent merkle model: commitment of a subtree and its locking script bytes"""
    if isinstance(shape, int):
        return sha(leaf_script(shape)), None
    lc, _ = ref_commit(shape[0])
    rc, _ = ref_commit(shape[1])
    root = xor(sha(lc), sha(rc))
    lock = op('MERKLEVAL') + root
    return sha(lock), lock


def ref_proof(shape, target):
    """reference unlocking items for leaf `target`: list of (sibling commitment, script) from the leaf level up"""
    def path(sh):
        if isinstance(sh, int):
            return [] if sh == target else None
        for side in (0, 1):
            p = path(sh[side])
            if p is not None:
                sib_c, _ = ref_commit(sh[1 - side])
                child = sh[side]
                script = leaf_script(child) if isinstance(child, int) else ref_commit(child)[1]
                return p + [(sib_c, script)]
        return None
    return path(shape)


def build_real(shape, leaves_out):
    if isinstance(shape, int):
        leaf = T.ScriptLeaf.from_code(leaf_script(shape))
        leaves_out[shape] = leaf
        return leaf
    return T.ScriptNode(build_real(shape[0], leaves_out), build_real(shape[1], leaves_out))


PLUGIN_CALLS = [0]


def counting_plugin(tape, stack, cache):
    PLUGIN_CALLS[0] += 1


def build_real_history(shape, leaves_out):
    """bottom-up construction that asks every node / leaf for its scripts before it is grafted into a bigger tree"""
    if isinstance(shape, int):
        leaf = T.ScriptLeaf.from_code(leaf_script(shape))
        leaves_out[shape] = leaf
        return leaf
    l = build_real_history(shape[0], leaves_out)
    r = build_real_history(shape[1], leaves_out)
    node = T.ScriptNode(l, r)
    node.locking_script()
    node.unlocking_script()
    node.commitment()
    for ch in (l, r):
        ch.unlocking_script()
    for leaf in list(leaves_out.values()):
        try:
            leaf.unlocking_script()
        except BaseException:
            pass
    return node


def run_auth(scripts, limits=None):
    rec = Recorder()
    PLUGIN_CALLS[0] = 0
    try:
        v = F.run_auth_scripts(list(scripts), {}, {CID: rec}, {'signature_extensions': [counting_plugin]}, **(limits or LIMITS))
    except BaseException as e:
        v = e
    return v, rec.log


def ref_run(scripts):
    rec = Recorder()
    v, e = ref_auth(scripts, limits=(1024, 8192, 128), contracts={CID: rec})
    return v, rec.log


def items_to_witness(pairs):
    return b''.join(P(s) + P(c) for s, c in pairs)


def shape_case(ctx, case):
    n, idx, corrupt = case
    shape = next(itertools.islice(shapes(n), idx, None))
    leaves = {}
    tree = build_real(shape, leaves)
    lock = tree.locking_script().bytes
    _, ref_lock = ref_commit(shape)
    ctx.state(('shape', n, idx))
    cnt = 0
    if lock != ref_lock:
        ctx.violation({'clause': 'root / locking script equals the recomputed merkle root'}, f'shape {shape}: {lock.hex()} vs {ref_lock.hex()}')
    # serialisation
    try:
        packed = tree.pack()
        tree2 = T.ScriptNode.unpack(packed)
        same = tree2.root() == tree.root()
        l2 = {}

        def collect(node):
            for ch in (node.left, node.right):
                if isinstance(ch, T.ScriptLeaf):
                    l2[ch.script.bytes] = ch
                else:
                    collect(ch)
        collect(tree2)
        for i, leaf in leaves.items():
            other = l2.get(leaf.script.bytes)
            if other is None or other.unlocking_script().bytes != leaf.unlocking_script().bytes:
                same = False
        if not same:
            ctx.violation({'clause': 'pack/unpack preserves root and unlocking scripts'}, f'shape {shape}')
    except BaseException as e:
        ctx.violation({'clause': 'pack/unpack preserves root and unlocking scripts', 'how': 'raises'}, f'shape {shape}: {e!r}')
    ctx.ran()
    for i, leaf in sorted(leaves.items()):
        cnt += 1
        unl = leaf.unlocking_script().bytes
        src_matches_bytes(ctx, leaf.unlocking_script(), 'unlocking script', f'shape {shape} leaf {i}')
        proof = ref_proof(shape, i)
        want_unl = items_to_witness([(c, s) for c, s in proof])
        if unl != want_unl:
            ctx.violation({'clause': 'unlocking script = sibling commitments and scripts from the leaf up'},
                          f'shape {shape} leaf {i}: {unl.hex()[:200]} vs {want_unl.hex()[:200]}')
        v, log = run_auth([unl, lock])
        ctx.ran()
        ctx.trans(len(proof) + 1)
        ctx.outcome('honest:%s' % v)
        if log != [bytes([i])] or v is not own_verdict(i):
            ctx.violation({'clause': 'honest proof runs exactly its leaf with the leaf\'s own verdict'},
                          f'shape {shape} leaf {i}: verdict {v!r} recorder {log}')
        want_calls = 1 if i % 4 != 2 else 0        # the FALSE VERIFY ending stops before the signature instruction
        if PLUGIN_CALLS[0] != want_calls:
            ctx.violation({'clause': 'the leaf runs under the embedder\'s plugins exactly as when run directly'},
                          f'shape {shape} leaf {i}: signature-extension plugin ran {PLUGIN_CALLS[0]} times, expected {want_calls}')
        rv, rlog = ref_run([unl, lock])
        if type(rv) is bool and (rv is not v or rlog != log):
            ctx.violation({'clause': 'reference interpreter disagrees on honest proof'}, f'shape {shape} leaf {i}: {v} {log} vs {rv} {rlog}')
        if not corrupt:
            continue
        # ---- corruptions: data that does not hash to the root must fail before the leaf starts
        def must_reject(what, pairs_or_bytes):
            nonlocal cnt
            cnt += 1
            w = pairs_or_bytes if isinstance(pairs_or_bytes, bytes) else items_to_witness(pairs_or_bytes)
            vv, lg = run_auth([w, lock])
            ctx.ran()
            ctx.trans()
            ctx.state(('cor', n, idx, i, what))
            ctx.outcome('corrupt:%s' % vv)
            if vv is not False or lg != []:
                ctx.violation({'clause': 'corrupted proof must be rejected before any leaf instruction', 'corruption': what.split(':')[0]},
                              f'shape {shape} leaf {i} {what}: verdict {vv!r} recorder {lg}')
        base = [(c, s) for c, s in proof]
        sc = base[0][1]
        for b in range(len(sc)):
            must_reject('script byte:%d' % b, [(base[0][0], sc[:b] + bytes([sc[b] ^ 1]) + sc[b + 1:])] + base[1:])
        for lvl in range(len(base)):
            c, s = base[lvl]
            for b in list(range(0, 32, 5)) + [31]:
                for bit in ((0, 7) if b == 0 else (0,)):
                    c2 = c[:b] + bytes([c[b] ^ (1 << bit)]) + c[b + 1:]
                    must_reject('sibling hash:%d.%d' % (lvl, b), base[:lvl] + [(c2, s)] + base[lvl + 1:])
            if lvl > 0:
                s2 = s[:-1] + bytes([s[-1] ^ 1])
                must_reject('node script:%d' % lvl, base[:lvl] + [(c, s2)] + base[lvl + 1:])
        if 2 <= len(base) <= 4:
            for perm in itertools.permutations(range(len(base))):
                if list(perm) != list(range(len(base))):
                    must_reject('level order:%s' % (perm,), [base[k] for k in perm])
        if len(base) >= 2:
            for lvl in range(len(base)):
                must_reject('dropped level:%d' % lvl, base[:lvl] + base[lvl + 1:])
        for j in leaves:
            if j != i:
                pj = ref_proof(shape, j)
                # proof of leaf j presented with the script of leaf i
                must_reject('script of leaf %d on the path of leaf %d' % (i, j), [(pj[0][0], leaf_script(i))] + pj[1:])
        # a foreign leaf with its own valid proof from a different tree
        fshape = (100, 101)
        fproof = ref_proof(fshape, 100)
        must_reject('foreign tree', [(c, s) for c, s in fproof])
        must_reject('empty witness', b'')
        must_reject('script only', P(leaf_script(i)))
    # the same tree assembled bottom-up, with every intermediate node queried before being grafted: same scripts
    if n <= 6:
        leaves2 = {}
        tree_h = build_real_history(shape, leaves2)
        if tree_h.locking_script().bytes != lock:
            ctx.violation({'clause': 'tree assembled bottom-up with intermediate queries has the same root'}, f'shape {shape}')
        for i, leaf in sorted(leaves2.items()):
            cnt += 1
            unl = leaf.unlocking_script().bytes
            v, log = run_auth([unl, lock])
            ctx.ran()
            if unl != leaves[i].unlocking_script().bytes or log != [bytes([i])] or v is not own_verdict(i):
                ctx.violation({'clause': 'unlocking scripts do not depend on queries made before grafting'},
                              f'shape {shape} leaf {i}: verdict {v!r} recorder {log}')
        # grafting through the prioritized builder's tree= argument
        try:
            extra = [T.Script.from_bytes(leaf_script(200)), T.Script.from_bytes(leaf_script(204))]
            big = T.make_script_tree_prioritized(list(extra), tree=tree_h)
            biglock = big.locking_script().bytes
            for i, leaf in sorted(leaves2.items()):
                cnt += 1
                v, log = run_auth([leaf.unlocking_script().bytes, biglock])
                ctx.ran()
                if log != [bytes([i])] or v is not own_verdict(i):
                    ctx.violation({'clause': 'leaves of a tree grafted with make_script_tree_prioritized(tree=) still unlock'},
                                  f'shape {shape} leaf {i}: verdict {v!r} recorder {log}')
        except BaseException as e:
            ctx.violation({'clause': 'leaves of a tree grafted with make_script_tree_prioritized(tree=) still unlock', 'how': 'raises'},
                          f'shape {shape}: {e!r}')
    ctx.evaluations += cnt - 1


def walk_leaves(node):
    out = []
    for ch in (node.left, node.right):
        if isinstance(ch, T.ScriptLeaf):
            out.append(ch)
        else:
            out.extend(walk_leaves(ch))
    return out


def filler(k):
    """k bytes of code without net effect (k = 0 or k >= 2)"""
    if k == 0:
        return b''
    if k == 2:
        return op('NOT') + op('NOT')
    if k <= 258:
        return op('PUSH1') + bytes([k - 3]) + b'\x5a' * (k - 3) + op('POP0')
    return op('PUSH2') + (k - 4).to_bytes(2, 'big') + b'\x5a' * (k - 4) + op('POP0')


def sized_leaf(i, size):
    base = leaf_script(i)
    return filler(size - len(base)) + base


LEAF_SIZES = (127, 128, 129, 254, 255, 256, 257, 258, 259, 260, 1023, 1024, 1025, 4096, 8191, 8192)


def leaf_size_case(ctx, case):
    """committed leaf scripts of every length around the push-size boundaries, in each leaf position of small trees"""
    size, n, pos = case
    codes = [sized_leaf(i, size) if i == pos else leaf_script(i) for i in range(n)]
    assert len(codes[pos]) == size
    ctx.state(('size', size, n, pos))
    cnt = 0

    def honest(what, unl, lock, i):
        nonlocal cnt
        cnt += 1
        v, log = run_auth([unl, lock])
        ctx.ran()
        ctx.trans()
        ctx.outcome('sized:%s' % v)
        if log != [bytes([i])] or v is not own_verdict(i):
            ctx.violation({'clause': 'a committed leaf of any size can be run', 'via': what},
                          f'{what}: leaf size {size} at {pos} of {n}, running leaf {i}: verdict {v!r} recorder {log}')
        # the same under other item-size limits of the embedder, down to exactly the largest item of the unlocking script
        for lim in (1024, size, size + 1):
            if lim >= max(size, 64) and lim != LIMITS['stack_max_item_size']:
                v, log = run_auth([unl, lock], {**LIMITS, 'stack_max_item_size': lim})
                ctx.ran()
                ctx.trans()
                if log != [bytes([i])] or v is not own_verdict(i):
                    ctx.violation({'clause': 'a committed leaf of any size can be run', 'via': what, 'limit': 'item size limit == leaf size' if lim == size else 'other item size limit'},
                                  f'{what}: leaf size {size} at {pos} of {n}, running leaf {i} with stack_max_item_size={lim}: verdict {v!r} recorder {log}')

    # tree classes
    try:
        leaves = [T.ScriptLeaf.from_code(c) for c in codes]
        node = leaves[0] if n == 1 else None
        if n >= 2:
            node = T.ScriptNode(leaves[0], leaves[1])
            for l in leaves[2:]:
                node = T.ScriptNode(node, l)
            lock = node.locking_script().bytes
            for i, l in enumerate(leaves):
                honest('tree classes', l.unlocking_script().bytes, lock, i)
            t2 = T.ScriptNode.unpack(node.pack())
            if t2.root() != node.root():
                ctx.violation({'clause': 'pack/unpack preserves root and unlocking scripts', 'via': 'sized leaf'}, f'size {size}')
    except BaseException as e:
        ctx.violation({'clause': 'a committed leaf of any size can be run', 'via': 'tree classes', 'how': 'raises'},
                      f'leaf size {size} at {pos} of {n}: {e!r}')
    for name, mk in (('prioritized', T.make_merklized_script_prioritized), ('balanced', T.make_merklized_script_balanced)):
        env.Rand.reset(b'c04-size')
        try:
            lock, unlocks = mk([T.Script.from_bytes(c) for c in codes])
        except BaseException as e:
            ctx.violation({'clause': 'a committed leaf of any size can be run', 'via': 'make_merklized_script_' + name, 'how': 'raises'},
                          f'leaf size {size} at {pos} of {n}: {e!r}')
            continue
        for i, u in enumerate(unlocks[:n]):
            honest('make_merklized_script_' + name, u.bytes, lock.bytes, i)
    ctx.evaluations += max(cnt - 1, 0)


def src_matches_bytes(ctx, script, what, detail):
    """a generated Script object is one script: its source compiles to its byte code"""
    try:
        b = env.parsing.compile_script(script.src)
    except BaseException as e:
        b = repr(e)
    ctx.ran()
    if b != script.bytes:
        ctx.violation({'clause': 'source of a generated script compiles to its byte code', 'what': what},
                      f'{detail}: src compiles to {b if isinstance(b, str) else b.hex()[:120]}, bytes {script.bytes.hex()[:120]}')


def salted_leaf(i):
    """a compiled leaf whose source does not reproduce its byte code (comptime random salt, the idiom of the filler leaves)"""
    lines = env.parsing.decompile_script(leaf_script(i))
    return T.Script.from_src('\n'.join(lines) + '\npush ~! { push d6 random } pop0')


def deep_loop_case(ctx, case):
    """a leaf whose script loops close to the limit gives its own verdict at every depth of the tree (the loop limit does not
    shrink with the number of tree levels above the leaf)"""
    iters, depth = case
    body = P(b'\xff') + op('ADD_INTS') + b'\x02'
    loop_leaf = P(bytes([iters])) + op('LOOP') + len(body).to_bytes(2, 'big') + body + op('POP0') + op('TRUE')
    # counter n on the stack: loop body adds -1 until it is zero (false), then the counter is dropped
    leaf = T.ScriptLeaf.from_code(loop_leaf)
    node = leaf
    for i in range(depth):
        other = T.ScriptLeaf.from_code(leaf_script(i))
        node = T.ScriptNode(other, node) if i % 2 == 0 else T.ScriptNode(node, other)
    if depth == 0:
        scripts = [loop_leaf]
    else:
        scripts = [leaf.unlocking_script().bytes, node.locking_script().bytes]
    v, log = run_auth(scripts)
    own, _ = run_auth([loop_leaf])
    rv, _ = ref_run(scripts)
    ctx.ran(3)
    ctx.trans(depth + 1)
    ctx.state(('deep-loop', iters, depth))
    ctx.outcome('deeploop:%s' % v)
    if v is not own or (type(rv) is bool and rv is not v):
        ctx.violation({'clause': 'the verdict is the leaf script\'s own verdict', 'leaf': 'loop near the limit'},
                      f'{iters} iterations at depth {depth}: in the tree {v!r}, alone {own!r}, reference {rv!r}')


def leaf_context_case(ctx, case):
    """a committed leaf runs in the context the embedder and the earlier scripts set up, exactly as it would on its own:
    flags given to the run (slack thresholds), functions defined by an earlier script, the embedder's contracts"""
    what, depth = case
    t = 1_700_000_000
    rec = Recorder()
    if what == 'ts_threshold 0':
        env.Clock.now = t - 100
        leaf_code = P(t.to_bytes(4, 'big')) + op('CHECK_TIMESTAMP')
        pre, kw = [], dict(additional_flags={'ts_threshold': 0})
    elif what == 'ts_threshold 500':
        env.Clock.now = t - 100
        leaf_code = P(t.to_bytes(4, 'big')) + op('CHECK_TIMESTAMP')
        pre, kw = [], dict(additional_flags={'ts_threshold': 500})
    elif what == 'epoch_threshold 3600':
        env.Clock.now = t - 1000
        leaf_code = P(t.to_bytes(4, 'big')) + op('CHECK_EPOCH')
        pre, kw = [], dict(additional_flags={'epoch_threshold': 3600})
    elif what == 'function defined by the witness':
        env.Clock.now = t
        leaf_code = op('CALL') + b'\x05'
        pre, kw = [op('DEF') + b'\x05' + (1).to_bytes(2, 'big') + op('TRUE')], {}
    elif what == 'contract registered globally':
        env.Clock.now = t
        leaf_code = P(b'\x07') + P(b'\x01') + P(CID) + op('INVOKE') + op('TRUE')
        pre, kw = [], {}
    else:   # contract supplied by the embedder
        env.Clock.now = t
        leaf_code = P(b'\x07') + P(b'\x01') + P(CID) + op('INVOKE') + op('TRUE')
        pre, kw = [], dict(contracts={CID: rec})
    leaf = T.ScriptLeaf.from_code(leaf_code)
    node = leaf
    for i in range(depth):
        other = T.ScriptLeaf.from_code(leaf_script(i))
        node = T.ScriptNode(other, node) if i % 2 == 0 else T.ScriptNode(node, other)
    cache = {'timestamp': t}

    def run(scripts):
        try:
            _, st, _ = F.run_script(b''.join(scripts), dict(cache), **kw)
            return st.list()
        except BaseException as e:
            return type(e).__name__
    if what == 'contract registered globally':
        F.add_contract(CID, rec)
    try:
        alone = run(pre + [leaf_code])
        in_tree = run(pre + [leaf.unlocking_script().bytes, node.locking_script().bytes])
        # ... and as the last script of an authorization, where a tree's locking script normally sits
        auth_alone = auth_tree = True
        if 'additional_flags' not in kw:         # (run_auth_scripts has no flags parameter)
            try:
                auth_alone = F.run_auth_scripts(pre + [leaf_code], dict(cache), **kw)
                auth_tree = F.run_auth_scripts(pre + [leaf.unlocking_script().bytes, node.locking_script().bytes], dict(cache), **kw)
            except BaseException as e:
                auth_alone, auth_tree = 'raised', repr(e)
    finally:
        if what == 'contract registered globally':
            F.remove_contract(CID)
    if auth_alone is not True or auth_tree is not True:
        ctx.violation({'clause': 'the verdict is the leaf script\'s own verdict', 'leaf': 'depends on ' + what.split(' ')[0], 'through': 'run_auth_scripts'},
                      f'{what}, depth {depth}: run_auth_scripts alone {auth_alone!r}, through the tree {auth_tree!r}')
    ctx.ran(4)
    ctx.trans(depth + 1)
    ctx.state(('leaf-context', what, depth))
    ctx.outcome('ctx:%s' % (alone,))
    if alone != [b'\xff'] and what != 'x':
        ctx.violation({'clause': 'harness expectation', 'what': what}, f'the leaf alone gives {alone}')
    if in_tree != alone:
        ctx.violation({'clause': 'the verdict is the leaf script\'s own verdict', 'leaf': 'depends on ' + what.split(' ')[0]},
                      f'{what}, depth {depth}: in the tree {in_tree}, alone {alone}')


def sub_at(node, shape, path):
    for side in path:
        node = node.left if side == 0 else node.right
        shape = shape[side]
    return node, shape


def sub_paths(shape, prefix=()):
    """every proper sub-position of a shape (leaves included)"""
    if isinstance(shape, int):
        return
    for side in (0, 1):
        yield prefix + (side,)
        yield from sub_paths(shape[side], prefix + (side,))


def reuse_case(ctx, case):
    """a second tree is built out of parts of an earlier one (a subtree or leaf that already sits in a tree): the new
    tree's leaves unlock the new tree"""
    n, idx, mode = case
    shape = next(itertools.islice(shapes(n), idx, None))
    cnt = 0
    for path in sub_paths(shape):
        leaves = {}
        t1 = build_real(shape, leaves)
        t1.locking_script()
        for lf in leaves.values():
            lf.unlocking_script()
        sub, subshape = sub_at(t1, shape, path)
        fresh = T.ScriptLeaf.from_code(leaf_script(52))
        try:
            if mode == 'left':
                new, newshape = T.ScriptNode(sub, fresh), (subshape, 52)
            elif mode == 'right':
                new, newshape = T.ScriptNode(fresh, sub), (52, subshape)
            elif mode == 'twice':
                mid = T.ScriptNode(sub, fresh)
                mid.locking_script()
                new, newshape = T.ScriptNode(T.ScriptLeaf.from_code(leaf_script(56)), sub), (56, subshape)
            else:
                new = T.make_script_tree_prioritized([T.Script.from_bytes(leaf_script(60)), T.Script.from_bytes(leaf_script(64))], tree=sub)
                newshape = None
            lock = new.locking_script().bytes
        except BaseException as e:
            ctx.violation({'clause': 'a tree built from parts of an earlier tree', 'how': 'raises', 'mode': mode}, f'shape {shape} part {path}: {e!r}')
            continue
        if newshape is not None and lock != ref_commit(newshape)[1]:
            ctx.violation({'clause': 'root / locking script equals the recomputed merkle root', 'tree': 'built from parts of an earlier tree'},
                          f'shape {shape} part {path} {mode}')
        real = {leaf_script(i): i for i in list(range(n)) + [52, 56, 60, 64]}
        lv = walk_leaves(new) if not isinstance(new, T.ScriptLeaf) else []
        for leaf in lv:
            i = real.get(leaf.script.bytes)
            if i is None:
                continue
            cnt += 1
            unl = leaf.unlocking_script().bytes
            v, log = run_auth([unl, lock])
            ctx.ran()
            ctx.trans()
            ctx.state(('reuse', n, idx, mode, path, i))
            ctx.outcome('reuse:%s' % v)
            if log != [bytes([i])] or v is not own_verdict(i):
                ctx.violation({'clause': 'every leaf of a tree built from parts of an earlier tree unlocks the new tree', 'mode': mode},
                              f'shape {shape} part {path} leaf {i}: verdict {v!r} recorder {log}')
            if newshape is not None and unl != items_to_witness(ref_proof(newshape, i)):
                ctx.violation({'clause': 'unlocking script = sibling commitments and scripts from the leaf up', 'tree': 'built from parts of an earlier tree'},
                              f'shape {shape} part {path} {mode} leaf {i}')
        try:
            t2 = T.ScriptNode.unpack(new.pack())
            ok = t2.root() == new.root() and [l.unlocking_script().bytes for l in walk_leaves(t2)] == [l.unlocking_script().bytes for l in lv]
        except BaseException:
            ok = False
        if not ok:
            ctx.violation({'clause': 'pack/unpack preserves root and unlocking scripts', 'tree': 'built from parts of an earlier tree'},
                          f'shape {shape} part {path} {mode}')
    ctx.evaluations += max(cnt - 1, 0)


def depth_of(shape, target, d=0):
    if isinstance(shape, int):
        return d if shape == target else None
    for side in (0, 1):
        r = depth_of(shape[side], target, d + 1)
        if r is not None:
            return r
    return None


def limit_case(ctx, case):
    """the embedder's call-stack limit set around the depth of the leaf: the tree costs one nesting level per merkle level,
    as the reference interpreter (one EVAL per level) says - no more"""
    n, idx = case
    shape = next(itertools.islice(shapes(n), idx, None))
    leaves = {}
    tree = build_real(shape, leaves)
    lock = tree.locking_script().bytes
    cnt = 0
    for i, leaf in sorted(leaves.items()):
        d = depth_of(shape, i)
        unl = leaf.unlocking_script().bytes
        for k in range(0, d + 3):
            cnt += 1
            rec = Recorder()
            try:
                v = F.run_auth_scripts([unl, lock], {}, {CID: rec}, stack_max_items=1024, stack_max_item_size=8192, callstack_limit=k)
            except BaseException as e:
                v = e
            rec2 = Recorder()
            rv, _ = ref_auth([unl, lock], limits=(1024, 8192, k), contracts={CID: rec2})
            ctx.ran(2)
            ctx.trans(d)
            ctx.state(('limit', n, idx, i, k))
            ctx.outcome('limit:%s' % v)
            if type(rv) is bool and (rv is not v or rec.log != rec2.log):
                ctx.violation({'clause': 'the verdict is the leaf script\'s own verdict', 'leaf': 'call-stack limit near the leaf depth'},
                              f'shape {shape} leaf {i} (depth {d}) call-stack limit {k}: verdict {v!r} recorder {rec.log}, reference {rv!r} {rec2.log}')
            if k == d + 2:
                # ... and the embedder's item-count limit around what the proof needs, with and without an extra witness item below it
                for extra in (b'', P(b'\x00'), P(b'\x01') + P(b'\x02')):
                    for mi in range(1, 2 * d + 7):
                        cnt += 1
                        rec3, rec4 = Recorder(), Recorder()
                        try:
                            v3 = F.run_auth_scripts([extra + unl, lock], {}, {CID: rec3}, stack_max_items=mi, stack_max_item_size=8192, callstack_limit=128)
                        except BaseException as e:
                            v3 = e
                        rv3, _ = ref_auth([extra + unl, lock], limits=(mi, 8192, 128), contracts={CID: rec4})
                        ctx.ran(2)
                        ctx.state(('items', n, idx, i, len(extra), mi))
                        if type(rv3) is bool and (rv3 is not v3 or rec3.log != rec4.log):
                            ctx.violation({'clause': 'the verdict is the leaf script\'s own verdict', 'leaf': 'item-count limit near what the proof needs'},
                                          f'shape {shape} leaf {i} (depth {d}) stack_max_items {mi}, {len(extra) // 3} extra witness items: verdict {v3!r} '
                                          f'recorder {rec3.log}, reference {rv3!r} {rec4.log}')
            if k >= d + 1 and (v is not own_verdict(i) or rec.log != [bytes([i])]):
                ctx.violation({'clause': 'the verdict is the leaf script\'s own verdict', 'leaf': 'call-stack limit above the leaf depth'},
                              f'shape {shape} leaf {i} (depth {d}) call-stack limit {k}: verdict {v!r} recorder {rec.log}')
    ctx.evaluations += max(cnt - 1, 0)


def big_pack_case(ctx, case):
    """serialisation of trees whose children serialise to more than 2^15 bytes (the child lengths are unsigned 16-bit fields)"""
    name, sizes, shape = case
    leaves = {}

    def build(sh):
        if isinstance(sh, int):
            lf = T.ScriptLeaf.from_code(sized_leaf(sh, sizes[sh]))
            leaves[sh] = lf
            return lf
        return T.ScriptNode(build(sh[0]), build(sh[1]))
    tree = build(shape)
    ctx.state(('bigpack', name))
    try:
        packed = tree.pack()
    except BaseException as e:
        ctx.unspec('pack refuses: %s' % type(e).__name__)      # more than the format can hold: refusing is fine
        return
    try:
        t2 = T.ScriptNode.unpack(packed)
        ok = t2.root() == tree.root() and [l.unlocking_script().bytes for l in walk_leaves(t2)] == [l.unlocking_script().bytes for l in walk_leaves(tree)]
    except BaseException as e:
        ok = repr(e)
    ctx.ran()
    ctx.trans()
    ctx.outcome('bigpack:%s' % (ok is True))
    if ok is not True:
        ctx.violation({'clause': 'pack/unpack preserves root and unlocking scripts', 'tree': 'children above 2^15 bytes'},
                      f'{name} (packed {len(packed)} bytes): {ok}')


def builder_case(ctx, n):
    cnt = 0
    srcs = lambda: [T.Script.from_bytes(leaf_script(i)) for i in range(n)]
    env.Rand.reset(b'c04-%d' % n)
    for name, mk in (('prioritized', T.make_merklized_script_prioritized), ('balanced', T.make_merklized_script_balanced)):
        try:
            lock, unlocks = mk(srcs())
        except BaseException as e:
            ctx.violation({'builder': 'make_merklized_script_' + name, 'clause': 'builds'}, f'n={n}: {e!r}')
            continue
        if len(unlocks) < n or (len(unlocks) != n and not (name == 'prioritized' and n == 1)):
            ctx.violation({'builder': 'make_merklized_script_' + name, 'clause': 'one unlocking script per leaf'}, f'n={n}: {len(unlocks)}')
        for u in unlocks[n:]:      # the single-leaf prioritized tree also returns its filler branch: it must not authorize
            v, log = run_auth([u.bytes, lock.bytes])
            ctx.ran()
            if v is not False or log != []:
                ctx.violation({'builder': 'make_merklized_script_' + name, 'clause': 'filler leaves never authorize'}, f'n={n}: {v!r} {log}')
        src_matches_bytes(ctx, lock, 'locking script', f'make_merklized_script_{name} n={n}')
        for i, u in enumerate(unlocks[:n]):
            cnt += 1
            src_matches_bytes(ctx, u, 'unlocking script', f'make_merklized_script_{name} n={n} leaf {i}')
            v, log = run_auth([u.bytes, lock.bytes])
            ctx.ran()
            ctx.trans()
            ctx.state((name, n, i))
            ctx.outcome('builder:%s' % v)
            if log != [bytes([i])] or v is not own_verdict(i):
                ctx.violation({'builder': 'make_merklized_script_' + name, 'clause': 'unlocking script i runs exactly leaf i with its own verdict'},
                              f'n={n} leaf {i}: verdict {v!r} recorder {log}')
    # leaves given as compiled Script objects are committed by their byte code, whatever their source would compile to now
    if n <= 9:
        for name, mk in (('prioritized', T.make_merklized_script_prioritized), ('balanced', T.make_merklized_script_balanced)):
            env.Rand.reset(b'c04-salt-%d' % n)
            leaves = [salted_leaf(i) for i in range(n)]
            try:
                lock, unlocks = mk(list(leaves))
            except BaseException as e:
                ctx.violation({'builder': 'make_merklized_script_' + name, 'clause': 'builds', 'leaves': 'salted'}, f'n={n}: {e!r}')
                continue
            for i, u in enumerate(unlocks[:n]):
                cnt += 1
                v, log = run_auth([u.bytes, lock.bytes])
                ctx.ran()
                ctx.trans()
                ctx.state((name, n, i, 'salted'))
                ctx.outcome('builder-salted:%s' % v)
                if leaves[i].bytes not in u.bytes or log != [bytes([i])] or v is not own_verdict(i):
                    ctx.violation({'builder': 'make_merklized_script_' + name, 'clause': 'unlocking script i runs exactly leaf i with its own verdict',
                                   'leaves': 'salted'}, f'n={n} leaf {i}: verdict {v!r} recorder {log}')
    for name, mk in (('prioritized', T.make_script_tree_prioritized), ('balanced', T.make_script_tree_balanced)):
        try:
            tree = mk(srcs())
        except BaseException as e:
            ctx.violation({'builder': 'make_script_tree_' + name, 'clause': 'builds'}, f'n={n}: {e!r}')
            continue
        lock = tree.locking_script().bytes
        lv = walk_leaves(tree)
        real = {leaf_script(i): i for i in range(n)}
        seen = set()
        commits = [l.commitment() for l in lv]
        if len(set(commits)) != len(commits):
            ctx.violation({'builder': 'make_script_tree_' + name, 'clause': 'leaf commitments differ (unique fillers)'}, f'n={n}')
        for leaf in lv:
            cnt += 1
            v, log = run_auth([leaf.unlocking_script().bytes, lock])
            ctx.ran()
            ctx.trans()
            i = real.get(leaf.script.bytes)
            if i is None:
                ctx.outcome('filler:%s' % v)
                if v is not False or log != []:
                    ctx.violation({'builder': 'make_script_tree_' + name, 'clause': 'filler leaves never authorize'},
                                  f'n={n} filler {leaf.script.bytes.hex()}: verdict {v!r} recorder {log}')
            else:
                seen.add(i)
                if log != [bytes([i])] or v is not own_verdict(i):
                    ctx.violation({'builder': 'make_script_tree_' + name, 'clause': 'every committed leaf can run with its own verdict'},
                                  f'n={n} leaf {i}: verdict {v!r} recorder {log}')
        if seen != set(range(n)):
            ctx.violation({'builder': 'make_script_tree_' + name, 'clause': 'every input leaf is in the tree'}, f'n={n}: {sorted(seen)}')
        try:
            t2 = T.ScriptNode.unpack(tree.pack())
            ok = t2.root() == tree.root() and [l.unlocking_script().bytes for l in walk_leaves(t2)] == \
                [l.unlocking_script().bytes for l in lv]
        except BaseException as e:
            ok = False
        if not ok:
            ctx.violation({'builder': 'make_script_tree_' + name, 'clause': 'pack/unpack preserves root and unlocking scripts'}, f'n={n}')
    ctx.evaluations += max(cnt - 1, 0)


def catalan(n):
    import math
    return math.comb(2 * n, n) // (n + 1)


def blocks(tier, seed):
    q = tier == 'quick'
    nmax, cmax = (8, 6) if q else (11, 9)
    cases = [(n, idx, n <= cmax) for n in range(2, nmax + 1) for idx in range(catalan(n - 1))]
    cases.sort(key=lambda c: (-c[0] * (10 if c[2] else 1)))
    bmax = 9 if q else 24
    return [
        Block('all_tree_shapes', cases, shape_case,
              'all binary tree shapes with 2..%d leaves (%d shapes), every leaf; every proof corruption for shapes <= %d leaves'
              % (nmax, len(cases), cmax), nshards=min(len(cases), 128)),
        Block('leaf_in_embedder_context', [(w, d) for w in ('ts_threshold 0', 'ts_threshold 500', 'epoch_threshold 3600',
                                                            'function defined by the witness', 'contract of the embedder', 'contract registered globally') for d in (1, 2, 4)],
              leaf_context_case, 'leaf depending on run flags / an earlier script\'s function / an embedder contract x depth 1, 2, 4', nshards=15),
        Block('deep_loop_leaf', [(it, d) for it in (1, 100, 120, 124, 125, 126, 127) for d in range(0, 9)], deep_loop_case,
              'leaf looping {1,100,120,124..127} times x depth 0..8 of a comb tree', nshards=32),
        Block('leaf_sizes', [(sz, n, pos) for sz in LEAF_SIZES for n in (1, 2, 3) for pos in range(n)], leaf_size_case,
              'leaf script lengths %s x trees of 1..3 leaves x position, through the tree classes and both builders' % (LEAF_SIZES,), nshards=32),
        Block('trees_from_parts_of_earlier_trees', [(n, idx, m) for n in range(2, (5 if q else 6) + 1) for idx in range(catalan(n - 1))
                                                    for m in ('left', 'right', 'twice', 'prioritized')], reuse_case,
              'every shape with 2..%d leaves x every sub-position reused x {left, right, reused twice, prioritized(tree=)}' % (5 if q else 6), nshards=32),
        Block('call_stack_limit_near_leaf_depth', [(n, idx) for n in range(2, (6 if q else 7) + 1) for idx in range(catalan(n - 1))], limit_case,
              'every shape with 2..%d leaves x every leaf x call-stack limit 0..depth+2, and x stack_max_items 1..2*depth+6 x 0..2 extra witness items, against the reference interpreter' % (6 if q else 7), nshards=32),
        Block('serialisation_of_large_children', [
            ('right leaf 32767', {0: 200, 1: 32767 - 3}, (0, 1)), ('right leaf 32768', {0: 200, 1: 32768}, (0, 1)), ('right leaf 40000', {0: 200, 1: 40000}, (0, 1)),
            ('left leaf 40000', {0: 40000, 1: 200}, (0, 1)), ('both 33000', {0: 33000, 1: 33000}, (0, 1)), ('right leaf 65000', {0: 200, 1: 65000}, (0, 1)),
            ('right-leaning 8 x 5000', {i: 5000 for i in range(8)}, (0, (1, (2, (3, (4, (5, (6, 7)))))))),
            ('left-leaning 8 x 5000', {i: 5000 for i in range(8)}, (((((((0, 1), 2), 3), 4), 5), 6), 7)),
            ('balanced 4 x 12000', {i: 12000 for i in range(4)}, ((0, 1), (2, 3))), ('right subtree 2 x 20000', {0: 100, 1: 20000, 2: 20000}, (0, (1, 2)))],
            big_pack_case, 'pack / unpack of trees whose left / right child serialises to 2^15 - 1 .. 65000 bytes', nshards=10),
        Block('builders', list(range(1, bmax + 1)), builder_case,
              'prioritized / balanced tree and merklized-script builders for every leaf count 1..%d, every leaf incl. fillers' % bmax,
              nshards=bmax),
    ]


def meta(tier, seed):
    q = tier == 'quick'
    return dict(
        rule='every shape x every leaf honest; every corruption of script bytes (bit 0 of each byte), sibling hashes, node scripts, level '
             'order (all permutations), dropped levels, cross-leaf and foreign-tree proofs; recording contract shows which leaves started',
        states_meaning='distinct (shape, leaf, corruption) cases; transitions = merkle levels evaluated',
        bounds={'max_leaves': 8 if q else 11, 'corruptions_upto_leaves': 6 if q else 9, 'builder_leaf_counts': 9 if q else 24},
        assumptions=['SHA-256 collision resistance for the rejection direction', 'sibling commitments differ by construction (distinct leaves; '
                     'filler randomness is the counter-based stream of mc.env)'],
    )
