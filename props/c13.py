"""C13 - signature and commitment lock builders: exactly the intended holder can unlock.

Complete cross product of witness descriptors x lock descriptors over all builder families
(single-sig both layouts, m-of-n multisig, script-hash, graftroot key / surrogate, graftap key /
script) x verifier sigfield contexts; every positive pair is additionally perturbed in every
byte of the witness.  Two oracles: a descriptor-level predicate written from the statement
(same-family pairs) and the reference interpreter on the same bytes (all pairs).
"""
import itertools

from mc import env
from mc.diff import ref_auth
from mc.run import Block
from ref import refed
from ref.optable import op, push

F, T = env.functions, env.tools
FIELDS = (1, 2, 3, 8)
FLAGS_Q = ('00', '01', '80')
FLAGS_T = ('00', '01', '02', '03', '20', '40', '80', '7f', 'fe')


def P(b):
    return push(b) if len(b) else b'\x03\x00'


def seeds(seed):
    return {n: env.sym(seed, 'c13.' + n) for n in 'ABC'}


def field_content(seed, i, variant):
    return env.sym(seed, 'c13.f%d.%d' % (i, variant), 3 + i)


def sigfields(seed, present, changed=()):
    return {'sigfield%d' % i: field_content(seed, i, 1 if i in changed else 0) for i in present}


def covered(present, flag):
    return [i for i in present if not flag >> (i - 1) & 1]


def msg(sf, flag):
    return b''.join(sf[k] for k in sorted(sf) if not flag >> (int(k[-1]) - 1) & 1)


COMMITTED = {
    'true': 'true', 'false': 'false', 'two': 'push d1 push d1 equal',
}


def scripts(seed):
    pkC = refed.public_key(seeds(seed)['C'])
    d = {k: T.Script.from_src(v) for k, v in COMMITTED.items()}
    d['sigC'] = T.make_single_sig_lock(pkC)
    d['ts'] = T.make_timestamp_after_lock(1_600_000_000)
    return d


# ---------------------------------------------------------------- descriptors
def lock_descriptors(flags):
    out = []
    for k in 'AB':
        for al in flags:
            out += [('single', k, al), ('single2', k, al), ('graftroot', k, al), ('graftap', k, al)]
    for keys, m in (('AB', 1), ('AB', 2), ('ABC', 2), ('BA', 2)):
        for al in flags[:2]:
            out.append(('multisig', keys, m, al))
    for s in ('true', 'false', 'two', 'sigC', 'ts'):
        out.append(('scripthash', s))
    return out


def witness_descriptors(flags):
    out = []
    fieldsets = ((1, 2), (1, 2, 8))
    for k in 'ABC':
        for fl in flags:
            for fs in fieldsets:
                for ch in ((), (1,), (8,)):
                    if ch and ch[0] not in fs:
                        continue
                    out += [('single', k, fl, fs, ch), ('single2', k, fl, fs, ch)]
            out += [('graftroot-key', k, fl, (1, 2), ()), ('graftap-key', k, fl, (1, 2), ())]
    for ks in ('A', 'B', 'AB', 'BA', 'AC', 'AA', 'ABC'):
        out.append(('multi', ks, '00', (1, 2), ()))
    out.append(('multi', 'AB', '01', (1, 2), ()))
    # one holder signing twice with different flag bytes, and honest mixed-flag quorums
    for pairs in ((('A', '00'), ('A', '01')), (('A', '01'), ('A', '00')), (('A', '00'), ('B', '01')), (('B', '01'), ('B', '00')),
                  (('A', '00'), ('A', '00')), (('C', '00'), ('C', '01'))):
        out.append(('multi2', pairs))
    for s in ('true', 'false', 'two', 'sigC', 'ts'):
        out.append(('scripthash', s, None))
        out.append(('scripthash', s, 'C'))
        for k in 'AB':
            out.append(('graftroot-surrogate', k, s, None))
            out.append(('graftap-script', k, s, None))
        out.append(('graftroot-surrogate', 'A', s, 'C'))
        out.append(('graftap-script', 'A', s, 'C'))
    return out


_LOCKS, _WITS = {}, {}
WIDE = ((3, 5), (127, 128), (127, 129), (128, 128), (128, 130), (129, 130), (200, 201), (255, 255))


def wide_case(ctx, case):
    """m-of-n with m, n on both sides of the one-byte signed / unsigned boundaries: builder witnesses of m holders
    unlock; m-1 holders, no witness, and m signatures including an outsider do not"""
    m, n = case
    seed = ctx.seed
    import nacl.signing
    sks = [env.sym(seed, 'c13.wide%d' % i) for i in range(n + 1)]
    pks = [bytes(nacl.signing.SigningKey(k).verify_key) for k in sks]
    if pks[0] != refed.public_key(sks[0]):
        raise AssertionError('key derivation mismatch')
    sf = sigfields(seed, (1, 2))
    lock = T.make_multisig_lock(pks[:n], m).bytes
    wit = [T.make_single_sig_witness(k, dict(sf), '00').bytes for k in sks]
    cnt = 0

    def run(name, parts, want):
        nonlocal cnt
        cnt += 1
        try:
            v = F.run_auth_scripts([b''.join(parts), lock], dict(sf))
        except BaseException as e:
            v = e
        ctx.ran()
        ctx.trans(2)
        ctx.state(('wide', m, n, name))
        ctx.outcome('wide:%s' % (v if type(v) is bool else 'raised'))
        if v is not want:
            ctx.violation({'family': 'multisig', 'clause': 'wide quorum', 'kind': 'accepts' if v is True else 'rejects', 'case': name},
                          f'{m}-of-{n} {name}: run_auth_scripts {v!r}, expected {want}')
    run('first m holders', wit[:m], True)
    run('last m holders', wit[n - m:n], True)
    run('m-1 holders', wit[:m - 1], False)
    run('no witness', [], False)
    run('m-1 holders and an outsider', wit[:m - 1] + [wit[n]], False)
    run('one holder m times', [wit[0]] * m, m == 1)
    ctx.evaluations += cnt - 1


def build_lock(seed, d):
    key = (seed, d)
    if key in _LOCKS:
        return _LOCKS[key]
    sk = seeds(seed)
    pk = {k: refed.public_key(v) for k, v in sk.items()}
    sc = scripts(seed)
    if d[0] == 'single':
        r = T.make_single_sig_lock(pk[d[1]], d[2])
    elif d[0] == 'single2':
        r = T.make_single_sig_lock2(pk[d[1]], d[2])
    elif d[0] == 'graftroot':
        r = T.make_graftroot_lock(pk[d[1]], d[2])
    elif d[0] == 'graftap':
        r = T.make_graftap_lock(pk[d[1]], d[2])
    elif d[0] == 'multisig':
        r = T.make_multisig_lock([pk[k] for k in d[1]], d[2], d[3])
    elif d[0] == 'scripthash':
        r = T.make_scripthash_lock(sc[d[1]])
    _LOCKS[key] = r.bytes
    return r.bytes


def build_witness(seed, d):
    key = (seed, d)
    if key in _WITS:
        return _WITS[key]
    sk = seeds(seed)
    sc = scripts(seed)
    base_sf = sigfields(seed, (1, 2))
    if d[0] in ('single', 'single2', 'graftroot-key', 'graftap-key'):
        _, k, fl, fs, ch = d
        sf = sigfields(seed, fs, ch)
        fn = {'single': T.make_single_sig_witness, 'single2': T.make_single_sig_witness2,
              'graftroot-key': T.make_graftroot_witness_keyspend, 'graftap-key': T.make_graftap_witness_keyspend}[d[0]]
        # history: the same holder signed other contents under the same field names and flags just before
        fn(sk[k], {n: v + b'-earlier' for n, v in sf.items()}, fl)
        r = fn(sk[k], sf, fl).bytes
    elif d[0] == 'multi2':
        r = b''.join(T.make_single_sig_witness(sk[k], sigfields(seed, (1, 2)), fl).bytes for k, fl in d[1])
    elif d[0] == 'multi':
        _, ks, fl, fs, ch = d
        r = b''.join(T.make_single_sig_witness(sk[k], sigfields(seed, fs, ch), fl).bytes for k in ks)
    else:
        inner = b''
        # history: the same builder was used for another script (same key) just before
        other = 'true' if d[1 if d[0] == 'scripthash' else 2] != 'true' else 'two'
        if d[0] == 'scripthash':
            _, s, ik = d
            if ik:
                inner = T.make_single_sig_witness(sk[ik], base_sf, '00').bytes
            T.make_scripthash_witness(sc[other]).bytes
            r = inner + T.make_scripthash_witness(sc[s]).bytes
        elif d[0] == 'graftroot-surrogate':
            _, k, s, ik = d
            if ik:
                inner = T.make_single_sig_witness(sk[ik], base_sf, '00').bytes
            T.make_graftroot_witness_surrogate(sk[k], sc[other])
            r = inner + T.make_graftroot_witness_surrogate(sk[k], sc[s]).bytes
        elif d[0] == 'graftap-script':
            _, k, s, ik = d
            if ik:
                inner = T.make_single_sig_witness(sk[ik], base_sf, '00').bytes
            T.make_graftap_witness_scriptspend(sk[k], sc[other])
            r = inner + T.make_graftap_witness_scriptspend(sk[k], sc[s]).bytes
    _WITS[key] = r
    return r


# ---------------------------------------------------------------- statement-level predicate (same-family pairs)
def script_verdict(s, inner):
    """own verdict of the committed / surrogate script given the inner witness"""
    if s in ('true', 'two'):
        return inner is None
    if s == 'false':
        return False
    if s == 'sigC':
        return inner == 'C'
    if s == 'ts':
        return inner is None
    return None


def predicted(w, l, vfields):
    """True/False when the statement determines the pair, None otherwise (cross-family etc.)"""
    vf = set(vfields)
    if w[0] in ('single', 'single2', 'graftroot-key', 'graftap-key') and l[0] in ('single', 'single2', 'graftroot', 'graftap'):
        fam = {'single': 'single', 'single2': 'single2', 'graftroot-key': 'graftroot', 'graftap-key': 'graftap'}[w[0]]
        if fam != l[0]:
            return None
        _, k, fl, fs, ch = w
        flag, allowed = int(fl, 16), int(l[2], 16)
        if flag & ~allowed & 0xff:
            return False
        same_msg = covered(fs, flag) == covered(sorted(vf), flag) and not (set(ch) & set(covered(fs, flag)))
        return k == l[1] and same_msg
    if w[0] == 'multi' and l[0] == 'multisig':
        _, ks, fl, fs, ch = w
        _, keys, m, al = l
        flag, allowed = int(fl, 16), int(al, 16)
        if len(ks) != m:
            return None if len(ks) > m else False
        if flag & ~allowed & 0xff:
            return False
        if covered(fs, flag) != covered(sorted(vf), flag):
            return False
        return len(set(ks)) == len(ks) and all(k in keys for k in ks)
    if w[0] == 'multi2' and l[0] == 'multisig':
        _, keys, m, al = l
        allowed = int(al, 16)
        ks = [k for k, _ in w[1]]
        if len(ks) != m:
            return None if len(ks) > m else False
        if any(int(fl, 16) & ~allowed & 0xff for _, fl in w[1]):
            return False
        if any(covered((1, 2), int(fl, 16)) != covered(sorted(vf), int(fl, 16)) for _, fl in w[1]):
            return False
        return len(set(ks)) == len(ks) and all(k in keys for k in ks)
    if w[0] == 'scripthash' and l[0] == 'scripthash':
        if w[1] != l[1]:
            return False
        return script_verdict(w[1], w[2]) if vf == {1, 2} else None
    if w[0] == 'graftroot-surrogate' and l[0] == 'graftroot':
        if w[1] != l[1]:
            return False
        return script_verdict(w[2], w[3]) if vf == {1, 2} else None
    if w[0] == 'graftap-script' and l[0] == 'graftap':
        if w[1] != l[1]:
            return False
        return script_verdict(w[2], w[3]) if vf == {1, 2} else None
    return None


def run_pair(ctx, wb, lb, cache):
    try:
        v = F.run_auth_scripts([wb, lb], dict(cache))
    except BaseException as e:
        v = e
    ctx.ran()
    ctx.trans(2)
    if len(cache) > 1:
        # the cache is a mapping: the same entries inserted in the opposite order give the same verdict
        try:
            v2 = F.run_auth_scripts([wb, lb], dict(reversed(list(cache.items()))))
        except BaseException as e:
            v2 = e
        ctx.ran()
        ctx.trans(2)
        if (v2 if type(v2) is bool else type(v2)) != (v if type(v) is bool else type(v)):
            ctx.violation({'clause': 'verdict independent of the order of the cache entries', 'kind': 'accepts' if v2 is True else 'rejects'},
                          f'witness {wb.hex()[:40]}.. lock {lb.hex()[:40]}.. fields {sorted(k for k in cache if type(k) is str)}: {v!r} / reversed {v2!r}')
    return v


FLAG_BITS = ['%02x' % (1 << b) for b in range(8)] + ['7f', 'fe', '55', 'aa']
FS8 = tuple(range(1, 9))


def flag_bits_case(ctx, fl):
    """every single flag bit (and four mixed patterns) through every signing builder family with all eight sigfields
    present: permitted exactly by a lock that allows the bit; covers exactly the fields whose bit is clear"""
    seed = ctx.seed
    env.Clock.now = 1_700_000_000
    flag = int(fl, 16)
    n = 0
    fams = (('single', 'single'), ('single2', 'single2'), ('graftroot-key', 'graftroot'), ('graftap-key', 'graftap'), ('multi', 'multisig'))
    for wf, lf in fams:
        w = (wf, 'A', fl, FS8, ()) if wf != 'multi' else ('multi', 'AB', fl, FS8, ())
        try:
            wb = build_witness(seed, w)
        except BaseException as e:
            ctx.violation({'clause': 'witness builder runs', 'family': wf, 'block': 'flag bits'}, f'{w}: {e!r}')
            continue
        for al in (fl, '%02x' % (flag ^ 0xff), 'ff'):
            l = (lf, 'A', al) if lf != 'multisig' else ('multisig', 'AB', 2, al)
            try:
                lb = build_lock(seed, l)
            except BaseException as e:
                ctx.violation({'clause': 'lock builder runs', 'family': lf, 'block': 'flag bits'}, f'{l}: {e!r}')
                continue
            permitted = (flag & ~int(al, 16) & 0xff) == 0
            for changed in (None,) + (FS8 if al == fl else ()):
                n += 1
                cache = sigfields(seed, FS8, (changed,) if changed else ())
                cache['timestamp'] = 1_700_000_000
                v = run_pair(ctx, wb, lb, cache)
                ctx.state(('flagbits', fl, wf, al, changed))
                ctx.outcome('fb:%s' % (v if type(v) is bool else 'raised'))
                want = permitted and (changed is None or bool(flag >> (changed - 1) & 1))
                if v is not want:
                    ctx.violation({'clause': 'exactly the intended holder can unlock', 'witness': wf, 'lock': lf, 'block': 'flag bits',
                                   'kind': 'accepts' if v is True else 'rejects'},
                                  f'{w} x {l} changed field {changed}: run_auth_scripts {v!r}, statement {want}')
                rv, e = ref_auth([wb, lb], ro=cache, now=1_700_000_000)
                ctx.ran()
                if type(rv) is bool and rv is not v:
                    ctx.violation({'clause': 'verdict differs from the reference interpreter', 'witness': wf, 'lock': lf,
                                   'block': 'flag bits', 'kind': 'accepts' if v is True else 'rejects'},
                                  f'{w} x {l} changed field {changed}: run_auth_scripts {v!r}, reference {rv}')
    ctx.evaluations += max(n - 1, 0)


EMPTY_MSG = [((), '00'), ((2,), '02'), ((2, 5), 'fe'), ((1, 8), '81'), ((3,), '7f')]


def empty_message_case(ctx, case):
    """sigfield sets / flags under which the covered message is the empty string: the builder witness still unlocks the
    sibling lock, another key still does not"""
    fs, fl = case
    seed = ctx.seed
    env.Clock.now = 1_700_000_000
    n = 0
    fams = (('single', 'single'), ('single2', 'single2'), ('graftroot-key', 'graftroot'), ('graftap-key', 'graftap'), ('multi', 'multisig'))
    for wf, lf in fams:
        for signer, lockkey in (('A', 'A'), ('B', 'A')):
            n += 1
            w = (wf, signer, fl, fs, ()) if wf != 'multi' else ('multi', signer + 'C', fl, fs, ())
            l = (lf, lockkey, fl) if lf != 'multisig' else ('multisig', lockkey + 'C', 2, fl)
            try:
                wb, lb = build_witness(seed, w), build_lock(seed, l)
            except BaseException as e:
                ctx.violation({'clause': 'builders run', 'family': wf, 'block': 'empty message'}, f'{w} / {l}: {e!r}')
                continue
            cache = sigfields(seed, fs)
            cache['timestamp'] = 1_700_000_000
            v = run_pair(ctx, wb, lb, cache)
            ctx.state(('emptymsg', fs, fl, wf, signer))
            ctx.outcome('em:%s' % (v if type(v) is bool else 'raised'))
            want = signer == lockkey
            if v is not want:
                ctx.violation({'clause': 'exactly the intended holder can unlock', 'witness': wf, 'lock': lf, 'block': 'empty message',
                               'kind': 'accepts' if v is True else 'rejects'},
                              f'{w} x {l} (covered message empty): run_auth_scripts {v!r}, statement {want}')
    ctx.evaluations += max(n - 1, 0)


DUP_LOCKS = [('ABA', 2, ('AB', 'BA'), ('A', 'B', 'AC', 'CB')), ('AAB', 1, ('A', 'B'), ('C',)), ('ABCA', 3, ('ABC', 'CBA'), ('AB', 'BC')),
             ('AA', 1, ('A',), ('B',))]


def duplicate_key_case(ctx, case):
    """a holder listed more than once in make_multisig_lock: m different holders still unlock, fewer or unlisted ones do not
    (what one holder signing twice achieves on such a lock is left open)"""
    keys, m, good, bad = case
    seed = ctx.seed
    env.Clock.now = 1_700_000_000
    n = 0
    for al in ('00', '01'):
        l = ('multisig', keys, m, al)
        try:
            lb = build_lock(seed, l)
        except BaseException as e:
            ctx.violation({'clause': 'lock builder runs', 'family': 'multisig', 'block': 'duplicate keys'}, f'{l}: {e!r}')
            continue
        for ks, want in [(g, True) for g in good] + [(b, False) for b in bad]:
            n += 1
            w = ('multi', ks, al, (1, 2), ())
            wb = build_witness(seed, w)
            cache = sigfields(seed, (1, 2))
            cache['timestamp'] = 1_700_000_000
            v = run_pair(ctx, wb, lb, cache)
            ctx.state(('dupkeys', keys, m, al, ks))
            ctx.outcome('dup:%s' % (v if type(v) is bool else 'raised'))
            if v is not want:
                ctx.violation({'clause': 'exactly the intended holder can unlock', 'witness': 'multi', 'lock': 'multisig',
                               'block': 'duplicate keys', 'kind': 'accepts' if v is True else 'rejects'},
                              f'signers {ks} on {m}-of-{list(keys)} allowed {al}: run_auth_scripts {v!r}, statement {want}')
    ctx.evaluations += max(n - 1, 0)


def sized_script(size):
    """byte code of exactly `size` bytes with verdict true"""
    k = size - 1
    if k == 0:
        fill = b''
    elif k == 2:
        fill = op('TRUE') + op('POP0')
    elif k <= 258:
        fill = b'\x03' + bytes([k - 3]) + b'\x5a' * (k - 3) + op('POP0')
    else:
        fill = b'\x04' + (k - 4).to_bytes(2, 'big') + b'\x5a' * (k - 4) + op('POP0')
    return fill + op('TRUE')


def script_size_case(ctx, size):
    """committed / surrogate scripts around the push-size boundaries, as Script objects and (surrogate) as source text"""
    seed = ctx.seed
    env.Clock.now = 1_700_000_000
    sk = seeds(seed)
    pk = {k: refed.public_key(v) for k, v in sk.items()}
    code = sized_script(size)
    assert len(code) == size
    S = T.Script.from_bytes(code)
    cache = sigfields(seed, (1, 2))
    cache['timestamp'] = 1_700_000_000
    n = 0
    pairs = []
    try:
        pairs.append(('scripthash', T.make_scripthash_witness(S).bytes, T.make_scripthash_lock(S).bytes))
        pairs.append(('graftroot surrogate', T.make_graftroot_witness_surrogate(sk['A'], S).bytes, T.make_graftroot_lock(pk['A']).bytes))
        pairs.append(('graftroot surrogate (source text)', T.make_graftroot_witness_surrogate(sk['A'], S.src).bytes,
                      T.make_graftroot_lock(pk['A']).bytes))
        pairs.append(('graftap script path', T.make_graftap_witness_scriptspend(sk['A'], S).bytes, T.make_graftap_lock(pk['A']).bytes))
    except BaseException as e:
        ctx.violation({'clause': 'builders run', 'block': 'script sizes', 'size': size if size in (255, 256, 257) else 'other'},
                      f'script of {size} bytes: {e!r}')
    for name, wb, lb in pairs:
        n += 1
        try:
            v = F.run_auth_scripts([wb, lb], dict(cache), stack_max_item_size=4096)
        except BaseException as e:
            v = e
        ctx.ran()
        ctx.trans(2)
        ctx.state(('script-size', size, name))
        ctx.outcome('size:%s' % (v if type(v) is bool else 'raised'))
        if v is not True:
            ctx.violation({'clause': 'exactly the intended holder can unlock', 'block': 'script sizes', 'family': name.split(' ')[0],
                           'kind': 'rejects'}, f'{name}, script of {size} bytes: {v!r}')
    ctx.evaluations += max(n - 1, 0)


def key_forms_case(ctx, fl):
    """every builder accepts its keys as bytes or as PyNaCl key objects and produces the same script either way"""
    import nacl.signing
    seed = ctx.seed
    env.Clock.now = 1_700_000_000
    sk = seeds(seed)
    skb, sko = sk['A'], nacl.signing.SigningKey(sk['A'])
    pkb, pko = bytes(sko.verify_key), sko.verify_key
    pk2b = refed.public_key(sk['B'])
    pk2o = nacl.signing.SigningKey(sk['B']).verify_key
    sf = sigfields(seed, (1, 2))
    S = T.Script.from_src('true')
    forms = [
        ('make_single_sig_lock', lambda k, s_: T.make_single_sig_lock(k, fl), 'pub'),
        ('make_single_sig_lock2', lambda k, s_: T.make_single_sig_lock2(k, fl), 'pub'),
        ('make_graftroot_lock', lambda k, s_: T.make_graftroot_lock(k, fl), 'pub'),
        ('make_graftap_lock', lambda k, s_: T.make_graftap_lock(k, fl), 'pub'),
        ('make_multisig_lock', lambda k, s_: T.make_multisig_lock([k, pk2o if k is pko else pk2b], 2, fl), 'pub'),
        ('make_single_sig_witness', lambda k, s_: T.make_single_sig_witness(s_, dict(sf), fl), 'prv'),
        ('make_single_sig_witness2', lambda k, s_: T.make_single_sig_witness2(s_, dict(sf), fl), 'prv'),
        ('make_graftroot_witness_keyspend', lambda k, s_: T.make_graftroot_witness_keyspend(s_, dict(sf), fl), 'prv'),
        ('make_graftroot_witness_surrogate', lambda k, s_: T.make_graftroot_witness_surrogate(s_, S), 'prv'),
        ('make_graftap_witness_keyspend', lambda k, s_: T.make_graftap_witness_keyspend(s_, dict(sf), fl), 'prv'),
        ('make_graftap_witness_scriptspend', lambda k, s_: T.make_graftap_witness_scriptspend(s_, S), 'prv'),
    ]
    n = 0
    for name, fn, kind in forms:
        n += 1
        ctx.state(('keyforms', fl, name))
        out = []
        for k, s_ in ((pkb, skb), (pko, sko)):
            try:
                out.append(fn(k, s_).bytes)
            except BaseException as e:
                out.append(repr(e))
        ctx.ran(2)
        ctx.outcome('keyforms:%s' % ('same' if out[0] == out[1] else 'differ'))
        if out[0] != out[1] or type(out[0]) is not bytes:
            ctx.violation({'clause': 'builders accept keys as bytes or key objects', 'builder': name},
                          f'{name} flags {fl}: bytes form {out[0] if type(out[0]) is str else out[0].hex()[:60]}, '
                          f'object form {out[1] if type(out[1]) is str else out[1].hex()[:60]}')
    ctx.evaluations += n - 1


def partial_collision_case(ctx, hashsize):
    """script-hash locks (every digest size) against OTHER scripts chosen by bounded search so that their digest agrees with
    the committed one on the first / last 1..2 bytes, or on every 8-byte word but one: the whole digest counts"""
    import hashlib
    S = T.Script.from_src('true')
    want_d = hashlib.shake_256(S.bytes).digest(hashsize)
    lock = T.make_scripthash_lock(S, hashsize).bytes
    found = {}
    kinds = {'last 1': lambda d: d[-1:] == want_d[-1:], 'last 2': lambda d: d[-2:] == want_d[-2:],
             'first 1': lambda d: d[:1] == want_d[:1], 'first 2': lambda d: d[:2] == want_d[:2],
             'last partial word': lambda d: d[-(hashsize % 8 or 8):][-2:] == want_d[-(hashsize % 8 or 8):][-2:]}
    for i in range(1, 300000):
        cand = b'\x03\x04' + i.to_bytes(4, 'big') + b'\x06\x01'          # push x<i> pop0 true
        d = hashlib.shake_256(cand).digest(hashsize)
        for k, pred in kinds.items():
            if k not in found and pred(d):
                found[k] = cand
        if len(found) == len(kinds):
            break
    n = 0
    cache = {'timestamp': 1_700_000_000}
    for k, cand in sorted(found.items()):
        n += 1
        wb = T.make_scripthash_witness(T.Script.from_bytes(cand)).bytes
        v = run_pair(ctx, wb, lock, cache)
        ctx.state(('collision', hashsize, k))
        ctx.outcome('collision:%s' % (v if type(v) is bool else 'raised'))
        if v is not False:
            ctx.violation({'clause': 'the lock rejects a witness for a different committed script', 'family': 'scripthash',
                           'agreement': k.split(' ')[0]}, f'digest size {hashsize}: script {cand.hex()} agrees on the {k} byte(s): {v!r}')
    # the honest witness still opens
    v = run_pair(ctx, T.make_scripthash_witness(S).bytes, lock, cache)
    if v is not True:
        ctx.violation({'clause': 'exactly the intended holder can unlock', 'family': 'scripthash', 'block': 'digest sizes', 'kind': 'rejects'},
                      f'digest size {hashsize}: {v!r}')
    ctx.evaluations += n


def pair_case(ctx, case):
    wi, tier = case
    seed = ctx.seed
    env.Clock.now = 1_700_000_000
    flags = FLAGS_Q if tier == 'quick' else FLAGS_T
    w = witness_descriptors(flags)[wi]
    try:
        wb = build_witness(seed, w)
    except BaseException as e:
        ctx.violation({'clause': 'witness builder runs', 'family': w[0]}, f'{w}: {e!r}')
        return
    n = 0
    contexts = [((1, 2), ()), ((1, 2), (2,)), ((1, 2, 8), ())]
    for l in lock_descriptors(flags):
        lb = build_lock(seed, l)
        for vf, vch in contexts:
            n += 1
            cache = sigfields(seed, vf, vch)
            cache['timestamp'] = 1_700_000_000
            v = run_pair(ctx, wb, lb, cache)
            ctx.state((w, l, vf, vch))
            ctx.outcome('%s' % (v if type(v) is bool else 'raised'))
            if type(v) is not bool:
                ctx.violation({'clause': 'run_auth_scripts never raises'}, f'{w} x {l}: {v!r}')
                continue
            rv, e = ref_auth([wb, lb], ro=cache, now=1_700_000_000)
            ctx.ran()
            if type(rv) is bool and rv is not v:
                ctx.violation({'clause': 'verdict differs from the reference interpreter', 'witness': w[0], 'lock': l[0],
                               'kind': 'accepts' if v else 'rejects'},
                              f'{w} x {l} verifier fields {vf} changed {vch}: run_auth_scripts {v}, reference {rv}')
            elif type(rv) is not bool:
                ctx.unspec(rv[1])
            # statement-level predicate; a verifier-side change of a field only matters when covered
            wch = set(w[4]) if len(w) == 5 and w[0] != 'multi' else set()
            if not vch:
                pv = predicted(w, l, vf)
                if pv is not None and pv is not v:
                    ctx.violation({'clause': 'exactly the intended holder can unlock', 'witness': w[0], 'lock': l[0],
                                   'kind': 'accepts' if v else 'rejects'},
                                  f'{w} x {l} verifier fields {vf}: run_auth_scripts {v}, statement {pv}')
            # perturb every byte of a positive witness (bit 0): judged by the reference
            if v is True and not vch and vf == (1, 2) and (wi % 3 == 0 or tier != 'quick'):
                for b in range(len(wb)):
                    w2 = wb[:b] + bytes([wb[b] ^ 1]) + wb[b + 1:]
                    v2 = run_pair(ctx, w2, lb, cache)
                    r2, _ = ref_auth([w2, lb], ro=cache, now=1_700_000_000)
                    n += 1
                    if type(r2) is bool and r2 is not v2:
                        ctx.violation({'clause': 'perturbed witness: verdict differs from the reference interpreter', 'witness': w[0],
                                       'lock': l[0], 'kind': 'accepts' if v2 is True else 'rejects'},
                                      f'{w} x {l} byte {b}: run_auth_scripts {v2!r}, reference {r2}')
    ctx.evaluations += n - 1


def blocks(tier, seed):
    flags = FLAGS_Q if tier == 'quick' else FLAGS_T
    nw = len(witness_descriptors(flags))
    return [Block('multisig_wide_quorums', list(WIDE), wide_case,
                  'm-of-n for (m, n) in %s: m holders / m-1 holders / nobody / outsider / one holder repeated' % (WIDE,), nshards=len(WIDE)),
            Block('flag_bits', list(FLAG_BITS), flag_bits_case, 'flags %s x 5 signing families x allowed {flag, ~flag, ff} x every sigfield '
                  'changed on the verifier side (all eight present)' % (FLAG_BITS,), nshards=len(FLAG_BITS)),
            Block('script_sizes', [1, 3, 127, 128, 129, 254, 255, 256, 257, 258, 259, 260, 511, 512, 900], script_size_case,
                  'committed / surrogate scripts of 1..900 bytes (both sides of 2^7, 2^8, 2^9; the builders sign under the default 1024-byte item limit) through the script-hash, graftroot '
                  'surrogate (Script and source text) and graftap script-path builders', nshards=16),
            Block('partial_digest_collisions', [8, 9, 16, 17, 20, 25, 26, 32, 33, 64], partial_collision_case,
                  'script-hash digest sizes x other scripts agreeing on the first / last 1-2 digest bytes (bounded search over 300000 '
                  'candidates)', nshards=12),
            Block('key_object_forms', ['00', '01', '80'], key_forms_case,
                  '11 builders x keys given as bytes / as PyNaCl SigningKey / VerifyKey objects x 3 flag values: identical scripts', nshards=3),
            Block('multisig_duplicate_keys', list(DUP_LOCKS), duplicate_key_case,
                  'make_multisig_lock with a holder listed twice: %s' % ([(k, m) for k, m, _, _ in DUP_LOCKS],), nshards=len(DUP_LOCKS)),
            Block('empty_covered_message', list(EMPTY_MSG), empty_message_case,
                  'sigfield sets x flags with an empty covered message %s x 5 signing families x right / wrong key' % (EMPTY_MSG,),
                  nshards=len(EMPTY_MSG)),
            Block('witness_x_lock_cross_product', [(i, tier) for i in range(nw)], pair_case,
                  '%d witness descriptors x %d lock descriptors x 3 verifier sigfield contexts; every byte of positive witnesses perturbed'
                  % (nw, len(lock_descriptors(flags))), nshards=nw, backstop=3600)]


def meta(tier, seed):
    assert refed.selftest()
    return dict(
        rule='complete cross product of builder-made witnesses and locks (all families, keys A/B/C, flag/allowed pairs, sigfield sets and '
             'contents, committed/surrogate scripts); two oracles: statement-level descriptor predicate and ref.refvm on the same bytes',
        states_meaning='distinct (witness descriptor, lock descriptor, verifier context) triples; transitions = scripts run',
        bounds={'flags': list(FLAGS_Q if tier == 'quick' else FLAGS_T), 'keys': 3},
        assumptions=['data independence over key / field contents beyond the alphabet (DESIGN 2.6)',
                     'Ed25519 / SHAKE-256 hardness for the rejection direction'],
    )
