"""C08 - scripts can read but never alter interpreter-owned (string keyed) cache values.

A recording dict subclass is passed as the cache through the public run_tape API; every write,
delete or in-place change of a str-keyed entry by any step of any enumerated script is a violation.
Spaces: a dedicated cache-attack family (every cache-writing path x keys spelling the protected
names in every encoding), all CTRL skeleton programs and the STEP transition space.
"""
import copy
import itertools

from mc import env, monitor, spaces, stepspace
from mc.run import Block
from ref.optable import op, push
from ref import refed

F = env.functions
PROTECTED = ['sigfield1', 'sigfield2', 'sigfield8', 'timestamp', 'custom', 'returned', 'E', 'P']


def initial_cache(seed, variant=0):
    if variant == 1:     # every protected name with a value of another type (float / str / None / tuple / bool ...)
        return {
            'sigfield1': 'text field', 'sigfield2': bytearray(b'\x02\x02'), 'sigfield8': None,
            'timestamp': 1_700_000_000.75, 'custom': (b'a', [b'nested', 1]), 'returned': True, 'E': [b'e'], 'P': b'p',
            'ts_threshold': 5, 'IR': [b'ir'], 'x': b'secret', 's': 1.5, b'k': [b'\x01'],
        }
    if variant == 3:     # mutable byte containers supplied by the embedder (bytearray sigfields, list / dict values)
        return {'sigfield1': bytearray(b'hello '), 'sigfield2': bytearray(b'world'), 'sigfield3': b'!', 'sigfield8': bytearray(b'8'),
                'timestamp': 1_700_000_000, 'custom': [bytearray(b'ab'), [b'x']], 'P': bytearray(b'p'), b'k': [b'\x01']}
    if variant == 4:     # falsy values of every kind (a default applied with `or` / `if not value` would replace them)
        return {'sigfield1': b'', 'sigfield2': bytearray(), 'sigfield3': b'\x00', 'timestamp': 0, 'custom': [], 'returned': False,
                'E': 0, 'P': b'', 'IR': (), 'x': None, 's': 0.0, 'ts_threshold': 0, b'k': [b'\x01']}
    if variant == 5:     # one list object sits under a string key and under byte keys at once (the embedder's dict aliases it)
        L, L2 = [b'a', b'b'], [b'p']
        return {'sigfield1': b'f1', 'timestamp': 1_700_000_000, 'custom': L, b'custom': L, b'k': L, 'P': L2, b'P': L2, 'E': L2, b'E': L2,
                b'': L, 'inputs': L}
    if variant == 2:
        return {'timestamp': '1700000000', 'sigfield1': [b'a', b'b'], 'custom': {'inner': [1, 2]}, 'returned': 0, b'k': [b'\x01']}
    return {
        'sigfield1': env.sym(seed, 'c8.f1', 6), 'sigfield2': b'\x02\x02', 'sigfield8': b'\x08',
        'timestamp': 1_700_000_000, 'custom': [b'a', 5, 1.5, 'x'], 'returned': 'embedder', 'E': 7, 'P': [b'p'],
        'vfloat': 2.5, 'vstr': 'str',
        b'k': [b'\x01', b'\x02'],
    }


def key_spellings(name):
    u = name.encode('utf-8')
    return [u, name.encode('utf-16-le'), name.encode('utf-16-be'), u + b'\x00', u.upper(), b'\x00' + u]


def P(b):
    return push(b) if len(b) else b'\x03\x00'


def lv(b):
    return bytes([len(b)]) + b


def attack_statements(seed):
    """every cache-writing path of the instruction set, with keys spelling the protected names"""
    ks = env.sym(seed, 'c8.K')
    pk = refed.public_key(ks)
    out = []
    keys = [b'', b'P', b'E', b's', b'x', b'X', b'r', b'R', b't', b'T', b'IR']
    for n in PROTECTED:
        keys.extend(key_spellings(n))
    keys = list(dict.fromkeys(k for k in keys if len(k) < 256))
    for k in keys:
        out.append(('WRITE_CACHE %r 1' % k, P(b'\xaa') + op('WRITE_CACHE') + lv(k) + b'\x01'))
        out.append(('WRITE_CACHE %r 0' % k, op('WRITE_CACHE') + lv(k) + b'\x00'))
        out.append(('READ_CACHE_STACK %r' % k, P(k) + op('READ_CACHE_STACK')))
        out.append(('READ_CACHE %r' % k, op('READ_CACHE') + lv(k)))
    out += [
        ('POP0', P(b'\xbb') + op('POP0')),
        ('POP1 2', P(b'\xbb') + P(b'\xcc') + op('POP1') + b'\x02'),
        ('TRY{FAIL}', op('TRY_EXCEPT') + b'\x00\x02\x00\x20\x00\x00'),
        ('RETURN', op('RETURN')),
        ('IF{RETURN}', op('TRUE') + op('IF') + b'\x00\x01' + op('RETURN')),
        ('LOOP{RETURN}', op('TRUE') + op('LOOP') + b'\x00\x01' + op('RETURN')),
        ('EVAL{RETURN}', P(op('RETURN')) + op('EVAL')),
        ('FUNC{RETURN}', op('DEF') + b'\x00\x00\x01' + op('RETURN') + op('CALL') + b'\x00'),
        ('INVOKE', P(b'a') + P(b'\x01') + P(b'c1') + op('INVOKE')),
        ('SIGN 00', P(ks) + op('SIGN') + b'\x00'),
        ('SIGN_STACK', P(b'm') + P(ks) + op('SIGN_STACK')),
        ('DERIVE_SCALAR', P(ks) + op('DERIVE_SCALAR')),
        ('DERIVE_POINT', P(ks) + op('DERIVE_SCALAR') + op('DERIVE_POINT')),
        ('MASU', P(ks) + P(b'm') + P(pk) + op('MAKE_ADAPTER_SIG_PUBLIC')),
        ('MASV', P(b'm') + P(ks) + P(ks) + op('MAKE_ADAPTER_SIG_PRIVATE')),
        ('DAS', P(ks) + P(b'm') + P(pk) + op('MAKE_ADAPTER_SIG_PUBLIC') + op('SWAP2') + P(ks) + op('DECRYPT_ADAPTER_SIG')),
        ('GET_VALUE custom', op('GET_VALUE') + lv(b'custom')),
        ('GET_VALUE P', op('GET_VALUE') + lv(b'P')),
        ('CHECK_TEMPLATE', P(b'x') + op('CHECK_TEMPLATE') + b'\x01'),
        ('CTS', P(b'\x00') + op('CHECK_TIMESTAMP')),
        ('CTSV', P(b'\x00') + op('CHECK_TIMESTAMP_VERIFY')),
        ('CE', P(b'\x00') + op('CHECK_EPOCH')),
        ('GET_MESSAGE ff', op('GET_MESSAGE') + b'\xff'),
        ('GET_MESSAGE 00', op('GET_MESSAGE') + b'\x00'),
        ('CHECK_SIG', P(b'\x00' * 64) + P(pk) + op('CHECK_SIG') + b'\x00'),
        ('CHECK_TEMPLATE 83', P(b'x') + P(b'y') + P(b'z') + op('CHECK_TEMPLATE') + b'\x83'),
        ('GET_VALUE timestamp', op('GET_VALUE') + lv(b'timestamp')),
        ('GET_VALUE sigfield1', op('GET_VALUE') + lv(b'sigfield1')),
        ('GET_VALUE returned', op('GET_VALUE') + lv(b'returned')),
    ]
    for fl in (b'\x00', b'\x01', b'\x09', b'timestamp', b'returned', b'ts_threshold'):
        out.append(('SET_FLAG %r' % fl, op('SET_FLAG') + lv(fl)))
        out.append(('UNSET_FLAG %r' % fl, op('UNSET_FLAG') + lv(fl)))
    return out


def judge(ctx, script, sig, seed, limits=(1024, 1024, 128), variant=0):
    init = initial_cache(seed, variant)
    before = copy.deepcopy({k: v for k, v in init.items() if type(k) is str})
    mon, exc, stack, rc = monitor.run_monitored(script, limits, cache=init, contracts=stepspace.CONTRACTS)
    ctx.ran()
    ctx.trans(mon.instr)
    bad = [(a, k) for a, k in rc.log if type(k) is not bytes]
    for a, k in bad[:3]:
        ctx.violation({**sig, 'clause': 'write to a non-bytes cache key', 'key': repr(k)},
                      f'script {script.hex()}: cache {a} with key {k!r}')
    after = {k: v for k, v in rc.items() if type(k) is str}
    if after != before or any(type(after.get(k)) is not type(before[k]) for k in before):
        diff = {k: (before.get(k), after.get(k)) for k in set(before) | set(after) if before.get(k) != after.get(k)}
        ctx.violation({**sig, 'clause': 'string-keyed entries changed', 'keys': sorted(map(str, diff))},
                      f'script {script.hex()}: {diff!r}')
    ctx.outcome('raised' if exc is not None else 'ok')
    # through run_script as well: the returned cache has the same str-keyed entries
    try:
        _, _, c2 = F.run_script(script, copy.deepcopy(init), contracts=dict(stepspace.CONTRACTS), stack_max_items=limits[0],
                                stack_max_item_size=limits[1], callstack_limit=limits[2])
    except BaseException:
        c2 = None
    ctx.ran()
    if c2 is not None:
        a2 = {k: v for k, v in c2.items() if type(k) is str}
        if a2 != before:
            diff = {k: (before.get(k), a2.get(k)) for k in set(before) | set(a2) if before.get(k) != a2.get(k)}
            ctx.violation({**sig, 'clause': 'run_script returned cache differs in string-keyed entries', 'keys': sorted(map(str, diff))},
                          f'script {script.hex()}: {diff!r}')


    # ... and through run_auth_scripts with further scripts after this one: the cache every later script runs on still has them
    mon2, v2 = monitor.run_monitored_auth([script, op('TRUE') + op('POP0'), op('TRUE')], limits, cache=copy.deepcopy(init),
                                          contracts=stepspace.CONTRACTS)
    ctx.ran()
    for i, c3 in enumerate(mon2.top_caches):
        a3 = {k: v for k, v in c3.items() if type(k) is str}
        if a3 != before:
            diff = {k: (before.get(k), a3.get(k)) for k in set(before) | set(a3) if before.get(k) != a3.get(k)}
            ctx.violation({**sig, 'clause': 'string-keyed entries changed for a later script of run_auth_scripts', 'keys': sorted(map(str, diff))},
                          f'script {script.hex()} as script 1 of 3: cache of script {i + 1}: {diff!r}')
            break


def attack_case(ctx, idxs):
    st = attack_statements(ctx.seed)
    script = b''.join(st[i][1] for i in idxs)
    ctx.state((script,))
    judge(ctx, script, {'family': 'cache attack'}, ctx.seed)
    if len(idxs) == 2 and not st[idxs[0]][0].startswith(('READ_CACHE', 'WRITE_CACHE')) and \
            not st[idxs[1]][0].startswith(('READ_CACHE', 'WRITE_CACHE')):
        judge(ctx, script, {'family': 'cache attack on typed initial cache'}, ctx.seed, variant=3)
    if len(idxs) <= 2:
        # small embedder limits (the cache holds more entries than the stack may hold items, items larger than allowed ...)
        for lim in ((2, 1024, 128), (4, 1024, 128), (1024, 3, 128), (1024, 1024, 1)):
            ctx.state((script, lim))
            judge(ctx, script, {'family': 'cache attack under small limits'}, ctx.seed, limits=lim)
    if len(idxs) == 1:
        # every single cache-touching path, also inside IF / TRY / EVAL, on initial caches whose protected
        # entries have other value types
        for v in (1, 2, 3, 4, 5):
            for wrapname, wrapped in (('top', script), ('IF', op('TRUE') + op('IF') + len(script).to_bytes(2, 'big') + script),
                                      ('TRY', op('TRY_EXCEPT') + len(script).to_bytes(2, 'big') + script + b'\x00\x00'),
                                      ('EVAL', P(script) + op('EVAL') if len(script) < 1000 else script)):
                ctx.state((wrapped, v))
                judge(ctx, wrapped, {'family': 'cache attack on typed initial cache'}, ctx.seed, variant=v)
    # consequence: the signed message and the time check are unchanged by the prefix
    tail = op('GET_MESSAGE') + b'\x00' + P(b'\x00') + op('CHECK_TIMESTAMP')
    init = initial_cache(ctx.seed)
    try:
        _, s0, _ = F.run_script(tail, copy.deepcopy(init))
        base = s0.list()[-2:]
    except BaseException:
        base = None
    try:
        # the attack script runs first; the probe then runs on the cache it left behind
        _, _, c1 = F.run_script(script, copy.deepcopy(init), contracts=dict(stepspace.CONTRACTS))
        _, s1, _ = F.run_script(tail, c1)
        got = s1.list()[-2:]
    except BaseException:
        got = None
    ctx.ran(2)
    if got is not None and base is not None and got != base:
        ctx.violation({'family': 'cache attack', 'clause': 'message / time verdict changed by a script prefix'},
                      f'script {script.hex()}: {base} -> {got}')


def alias_cases():
    """a value fetched from a str-keyed entry (GET_VALUE / GET_MESSAGE) followed by every instruction x boundary operand,
    with a longer and a shorter second item on either side: no instruction may modify the embedder's object in place"""
    from ref.optable import NAME
    out = []
    fetches = [op('GET_VALUE') + lv(k) for k in (b'sigfield1', b'sigfield2', b'sigfield8', b'P', b'custom', b'timestamp')] + \
        [op('GET_MESSAGE') + b'\xfe']
    others = (P(b'\x01' * 9), P(b'\x01'), b'')
    for fi, f in enumerate(fetches):
        for opc in sorted(NAME):
            for operand in stepspace.operands(NAME[opc])[:6]:
                for oi, o in enumerate(others):
                    out.append((fi, opc, o + f + bytes([opc]) + operand))
                    if o:
                        out.append((fi, opc, f + o + bytes([opc]) + operand))
    return out


def alias_case(ctx, case):
    fi, opc, script = case
    ctx.state((script,))
    judge(ctx, script, {'family': 'value fetched from a string-keyed entry, then one instruction'}, ctx.seed, variant=3)


def ctrl_case(ctx, p):
    script = spaces.render(p)
    ctx.state((script,))
    judge(ctx, script, {'family': 'CTRL'}, ctx.seed)


def step_case(ctx, case):
    script, cfg = case
    ctx.state((script, cfg))
    judge(ctx, script, {'family': 'STEP', 'op': stepspace.last_op_name(script)}, ctx.seed)


def blocks(tier, seed):
    q = tier == 'quick'
    n = len(attack_statements(seed))
    seqs = [(i,) for i in range(n)] + list(itertools.product(range(n), repeat=2))
    if not q:
        core = [i for i, (nm, _) in enumerate(attack_statements(seed)) if not nm.startswith(('READ_CACHE', 'WRITE_CACHE'))
                or any(x in nm for x in ("b'timestamp'", "b'sigfield1'", "b'returned'", "b'P'", "b'E'"))]
        seqs += list(itertools.product(core, repeat=3))
    bl = [
        Block('cache_attack_sequences', seqs, attack_case,
              'sequences of <= %d statements over %d cache-writing paths / key spellings' % (2 if q else 3, n), nshards=128),
        Block('fetched_value_x_instruction', alias_cases(), alias_case,
              'GET_VALUE / GET_MESSAGE of every mutable-container entry x every instruction x boundary operands x second item longer / '
              'shorter / absent, either order', nshards=64),
        Block('CTRL_skel', lambda s, nn: spaces.progs_upto(3 if q else 4, 'skel', s, nn), ctrl_case,
              'all skeleton control programs', nshards=32),
        Block('CTRL_wit', lambda s, nn: spaces.progs_upto(2 if q else 3, 'wit', s, nn), ctrl_case,
              'all adversarial-witness grammar programs', nshards=32),
    ]
    if not q:
        bl.append(Block('STEP', lambda s, nn: stepspace.cases('quick', seed, s, nn), step_case, 'the STEP transition space', nshards=128))
    else:
        bl.append(Block('STEP_typed', lambda s, nn: stepspace.typed_cases('quick', seed, s, nn), step_case,
                        'typed multi-operand instructions', nshards=32))
    return bl


def meta(tier, seed):
    return dict(
        rule='every enumerated script runs on the real VM with a recording dict as cache (public run_tape API) and through run_script; '
             'invariant at every cache mutation: key is bytes; str-keyed entries deep-equal before/after',
        states_meaning='distinct scripts; transitions = dispatched instructions',
        bounds={'attack_sequence_len': 2 if tier == 'quick' else 3, 'protected_names': PROTECTED},
        assumptions=['no plugin or contract that writes the cache is installed (the recording contracts are pure)'],
    )
