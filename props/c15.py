"""C15 - hash- and point-time-locked contracts: claim and refund paths are exact.

Complete grids over (lock kind, witness builder, signer, preimage choice, timestamp around the
deadline, clock slack around the threshold, timeout) with a virtual clock that is set to T0 while
the lock is built and moved before the run; preimage lengths 1..64; SHAKE digest sizes; PTLC
tweak scalars; sigflag pairs; all cross pairings of witness kinds and lock kinds.  Oracles: the
HTLC/PTLC model written from the statement and the reference interpreter on the same bytes.
"""
import hashlib

from mc import env
from mc.diff import ref_auth
from mc.run import Block
from ref import refed
from ref.optable import op, push

F, T = env.functions, env.tools
T0 = 1_700_000_000
THR = 60
KINDS = ('htlc_sha256', 'htlc_shake256', 'htlc2_sha256', 'htlc2_shake256', 'ptlc', 'ptlc_tweak')


def P(b):
    return push(b) if len(b) else b'\x03\x00'


def keys(seed):
    sk = {n: env.sym(seed, 'c15.' + n) for n in ('receiver', 'refund', 'outsider')}
    return sk, {n: refed.public_key(v) for n, v in sk.items()}


def fields(seed):
    return {'sigfield1': env.sym(seed, 'c15.f1', 7), 'sigfield2': env.sym(seed, 'c15.f2', 5)}


def tweak(seed):
    t = bytearray(env.sym(seed, 'c15.tweak'))
    t[31] &= 0x7f
    return bytes(t)


def build_lock(kind, pk, preimage, timeout, flags='00', hash_size=20, tw=None, t0=None):
    env.Clock.now = T0 if t0 is None else t0
    if kind == 'htlc_sha256':
        return T.make_htlc_sha256_lock(pk['receiver'], pk['refund'], preimage, timeout=timeout, sigflags=flags).bytes
    if kind == 'htlc_shake256':
        return T.make_htlc_shake256_lock(pk['receiver'], pk['refund'], preimage, hash_size=hash_size, timeout=timeout, sigflags=flags).bytes
    if kind == 'htlc2_sha256':
        return T.make_htlc2_sha256_lock(pk['receiver'], pk['refund'], preimage, timeout=timeout, sigflags=flags).bytes
    if kind == 'htlc2_shake256':
        return T.make_htlc2_shake256_lock(pk['receiver'], pk['refund'], preimage, hash_size=hash_size, timeout=timeout, sigflags=flags).bytes
    if kind == 'ptlc':
        return T.make_ptlc_lock(pk['receiver'], pk['refund'], timeout=timeout, sigflags=flags).bytes
    if kind == 'ptlc_tweak':
        tp = refed.scalarmult_base_noclamp(tw)
        return T.make_ptlc_lock(pk['receiver'], pk['refund'], tweak_point=tp, timeout=timeout, sigflags=flags).bytes
    raise ValueError(kind)


def build_witness(wkind, sk, signer, preimage, sf, flags='00', tw=None):
    if wkind == 'htlc':
        return T.make_htlc_witness(sk[signer], preimage, dict(sf), flags).bytes
    if wkind == 'htlc2':
        return T.make_htlc2_witness(sk[signer], preimage, dict(sf), flags).bytes
    if wkind == 'ptlc':
        return T.make_ptlc_witness(sk[signer], dict(sf), sigflags=flags).bytes
    if wkind == 'ptlc_tweaked':
        return T.make_ptlc_witness(sk[signer], dict(sf), tweak_scalar=tw, sigflags=flags).bytes
    if wkind == 'ptlc_refund':
        return T.make_ptlc_refund_witness(sk[signer], dict(sf), flags).bytes
    raise ValueError(wkind)


def matching_witness(kind, path):
    if kind.startswith('htlc2'):
        return 'htlc2'
    if kind.startswith('htlc'):
        return 'htlc'
    if path == 'refund':
        return 'ptlc_refund'
    return 'ptlc_tweaked' if kind == 'ptlc_tweak' else 'ptlc'


def model(kind, wkind, signer, preimage_choice, t, now, deadline, permitted=True, same_msg=True):
    """accept? for same-family pairs (None when the statement does not determine it)"""
    if not (permitted and same_msg):
        return False
    time_ok = t >= deadline and (t - now < THR)
    if kind.startswith('htlc'):
        if wkind != matching_witness(kind, None):
            return None
        if preimage_choice == 'right':
            return signer == 'receiver'
        return time_ok and signer == 'refund'
    # ptlc
    if wkind == 'ptlc_refund':
        return time_ok and signer == 'refund'
    if kind == 'ptlc' and wkind == 'ptlc':
        return signer == 'receiver'
    if kind == 'ptlc_tweak' and wkind == 'ptlc_tweaked':
        return signer == 'receiver'
    if kind == 'ptlc_tweak' and wkind == 'ptlc':
        return False
    if kind == 'ptlc' and wkind == 'ptlc_tweaked':
        return False
    return None


def judge(ctx, w, lock, cache, want, sig, detail, now):
    try:
        v = F.run_auth_scripts([w, lock], dict(cache))
    except BaseException as e:
        v = e
    ctx.ran()
    ctx.trans(2)
    ctx.outcome('%s' % (v if type(v) is bool else 'raised'))
    if want is not None and v is not want:
        ctx.violation({**sig, 'oracle': 'contract model', 'kind': 'accepts' if v is True else 'rejects'},
                      f'{detail}: run_auth_scripts {v!r}, model {want}')
    if len(cache) > 1:
        # the cache is a mapping: the same entries inserted by the embedder in the opposite order give the same verdict
        try:
            v2 = F.run_auth_scripts([w, lock], dict(reversed(list(cache.items()))))
        except BaseException as e:
            v2 = e
        ctx.ran()
        ctx.trans(2)
        if (v2 if type(v2) is bool else type(v2)) != (v if type(v) is bool else type(v)):
            ctx.violation({**sig, 'oracle': 'cache entry order', 'kind': 'accepts' if v2 is True else 'rejects'},
                          f'{detail}: run_auth_scripts {v!r}, with the cache entries inserted in reverse order {v2!r}')
    rv, _ = ref_auth([w, lock], ro=cache, now=now)
    ctx.ran()
    if type(rv) is bool and rv is not v:
        ctx.violation({**sig, 'oracle': 'reference interpreter', 'kind': 'accepts' if v is True else 'rejects'},
                      f'{detail}: run_auth_scripts {v!r}, reference {rv}')
    elif type(rv) is not bool:
        ctx.unspec(rv[1])


def preimages(seed, ln=16):
    right = env.sym(seed, 'c15.pre%d' % ln, ln)
    wrong = bytes([right[0] ^ 1]) + right[1:]
    return {'right': right, 'wrong': wrong, 'filler': b'\x00', 'filler2': b'\x00\x00', 'filler32': b'\x00' * 32, 'filler-1': b'\x00\x01'}


def time_grid(ctx, case):
    kind, signer, choice = case[:3]
    deep = len(case) > 3
    seed = ctx.seed
    sk, pk = keys(seed)
    sf = fields(seed)
    tw = tweak(seed)
    pre = preimages(seed)
    n = 0
    for timeout in (TIMEOUTS_DEEP if deep else (0, 1, 86400, -1, -86400)):
        lock = build_lock(kind, pk, pre['right'], timeout, tw=tw)
        deadline = T0 + timeout
        if kind.startswith('htlc'):
            wkinds = [matching_witness(kind, None)]
        else:
            wkinds = ['ptlc_refund'] if choice != 'right' else [matching_witness(kind, 'claim')]
            if choice == 'filler':
                continue
        for wk in wkinds:
            w = build_witness(wk, sk, signer, pre[choice], sf, tw=tw)
            for dt in ((-2, -1, 0, 1, 2, 3600) if deep else (-1, 0, 1)):
                t = deadline + dt
                for dn in ((-2, -1, 0, 1, 2, -THR, -(THR - 1), -(THR + 1), -(2 * THR + 1), -(THR + 3600)) if deep else
                           (-1, 0, 1, -(2 * THR + 1), -(THR + 3600))):     # the last ones: clock level with / ahead of the timestamp
                    now = t - (THR + dn)
                    env.Clock.now = now
                    n += 1
                    cache = {**sf, 'timestamp': t}
                    want = model(kind, wk, signer, choice, t, now, deadline)
                    ctx.state(('time', kind, wk, signer, choice, timeout, dt, dn))
                    judge(ctx, w, lock, cache, want, {'lock': kind, 'block': 'time grid', 'path': 'claim' if choice == 'right' else 'refund'},
                          f'{kind} x {wk} signer={signer} preimage={choice} timeout={timeout} t=deadline{dt:+d} t-now={THR + dn}', now)
    ctx.evaluations += max(n - 1, 0)


TIMEOUTS_DEEP = (0, 1, 2, 59, 60, 61, 127, 128, 255, 256, 65535, 65536, 86400, 2 ** 31 - 1, 2 ** 31, 2 ** 32, -1, -2, -60, -61, -128, -129, -86400)


DEADLINES = sorted({(1 << b) + d for b in (7, 8, 15, 16, 23, 24, 31, 32, 39, 40, 47, 48, 55, 56, 62, 63, 64) for d in (-1, 0, 1)} | {0, 1, 2})


def deadline_widths(ctx, case):
    """deadlines on both sides of every encoding-width boundary of the pushed integer, reached by
    three (creation time, timeout) decompositions; refund and claim paths at deadline-1, deadline, deadline+1"""
    kind, D = case
    seed = ctx.seed
    sk, pk = keys(seed)
    sf = fields(seed)
    tw = tweak(seed)
    pre = preimages(seed)
    n = 0
    decomp = [(D, 0), (D - 1000, 1000)] if D >= 1000 else [(D, 0), (0, D), (D - 1, 1)]
    if D > T0:
        decomp.append((T0, D - T0))
    for t0, timeout in decomp:
        try:
            lock = build_lock(kind, pk, pre['right'], timeout, tw=tw, t0=t0)
        except Exception as e:
            ctx.violation({'lock': kind, 'block': 'deadline widths', 'clause': 'lock builder raised', 'exc': type(e).__name__},
                          f'{kind} created at {t0} timeout={timeout}: {e!r}')
            continue
        for path, signer, choice in (('refund', 'refund', 'wrong'), ('refund', 'receiver', 'wrong'), ('claim', 'receiver', 'right')):
            wk = matching_witness(kind, path)
            w = build_witness(wk, sk, signer, pre[choice], sf, tw=tw)
            for dt in (-1, 0, 1):
                t = D + dt
                if t < 0:
                    continue
                for now in ((t,) if t else (t, 50)):      # timestamp 0 also with the verifier clock elsewhere
                    env.Clock.now = now
                    n += 1
                    want = model(kind, wk, signer, choice, t, now, D)
                    ctx.state(('width', kind, D, t0, timeout, path, signer, dt, now - t))
                    judge(ctx, w, lock, {**sf, 'timestamp': t}, want, {'lock': kind, 'block': 'deadline widths', 'path': path},
                          f'{kind} x {wk} signer={signer} created at {t0} timeout={timeout} deadline={D} t=deadline{dt:+d} now={now}', now)
    ctx.evaluations += max(n - 1, 0)


def preimage_lengths(ctx, case):
    kind, ln = case
    seed = ctx.seed
    sk, pk = keys(seed)
    sf = fields(seed)
    pre = preimages(seed, ln)
    n = 0
    sizes = (1, 2, 8, 15, 16, 17, 20, 31, 32, 33, 63, 64, 65, 96, 126, 127) if 'shake' in kind and ln in (1, 16, 32, 64) else (20,)
    for hs in sizes:
        lock = build_lock(kind, pk, pre['right'], 1000, hash_size=hs)
        # lock built from the digest instead of the preimage is the same lock
        dg = hashlib.sha256(pre['right']).digest() if 'sha256' in kind else hashlib.shake_256(pre['right']).digest(hs)
        env.Clock.now = T0
        fn = getattr(T, 'make_' + kind + '_lock')
        kw = {'hash_size': hs} if 'shake' in kind else {}
        lock_d = fn(pk['receiver'], pk['refund'], digest=dg, timeout=1000, **kw).bytes
        if lock_d != lock:
            ctx.violation({'lock': kind, 'block': 'preimage lengths', 'clause': 'lock from digest equals lock from preimage'},
                          f'len {ln} hash size {hs}')
        wk = matching_witness(kind, None)
        # a lock made from a digest that differs from the real one in a single byte (every position) is not claimed by the real preimage
        if ln in (1, 32):
            for pos in range(len(dg)):
                n += 1
                dg2 = dg[:pos] + bytes([dg[pos] ^ 0x01]) + dg[pos + 1:]
                lock2 = fn(pk['receiver'], pk['refund'], digest=dg2, timeout=1000, **kw).bytes
                t = T0 + 5
                env.Clock.now = t
                w = build_witness(wk, sk, 'receiver', pre['right'], sf)
                ctx.state(('near-miss digest', kind, ln, hs, pos))
                judge(ctx, w, lock2, {**sf, 'timestamp': t}, False, {'lock': kind, 'block': 'preimage lengths', 'digest': 'one byte off'},
                      f'{kind} hash size {hs}: lock from the digest with byte {pos} changed, claimed with the real preimage', t)
        for choice in ('right', 'wrong'):
            if ln == 1 and choice == 'wrong' and False:
                continue
            for signer in ('receiver', 'refund'):
                n += 1
                t = T0 + 5
                env.Clock.now = t
                w = build_witness(wk, sk, signer, pre[choice], sf)
                want = model(kind, wk, signer, choice, t, t, T0 + 1000)
                ctx.state(('pre', kind, ln, hs, choice, signer))
                judge(ctx, w, lock, {**sf, 'timestamp': t}, want, {'lock': kind, 'block': 'preimage lengths'},
                      f'{kind} preimage length {ln} hash size {hs} {choice} signer={signer} before the deadline', t)
                # the same pair at the deadline (the refund path of every digest size)
                n += 1
                t2 = T0 + 1000
                env.Clock.now = t2
                want2 = model(kind, wk, signer, choice, t2, t2, T0 + 1000)
                ctx.state(('pre', kind, ln, hs, choice, signer, 'deadline'))
                judge(ctx, w, lock, {**sf, 'timestamp': t2}, want2, {'lock': kind, 'block': 'preimage lengths', 'at': 'deadline'},
                      f'{kind} preimage length {ln} hash size {hs} {choice} signer={signer} at the deadline', t2)
    ctx.evaluations += max(n - 1, 0)


def tweak_scalars(seed):
    L = refed.L
    sym = env.sym(seed, 'c15.tw2')
    uncl = bytearray(sym)
    uncl[31] &= 0x7f
    uncl[0] |= 7
    return [('1', (1).to_bytes(32, 'little')), ('L-1', (L - 1).to_bytes(32, 'little')), ('clamped', refed.clamp_scalar(sym, True)),
            ('unclamped', bytes(uncl)), ('2^254+', ((1 << 254) + 12345).to_bytes(32, 'little'))]


def ptlc_tweaks(ctx, case):
    name, tw = case
    seed = ctx.seed
    sk, pk = keys(seed)
    sf = fields(seed)
    n = 0
    lock = build_lock('ptlc_tweak', pk, None, 100, tw=tw)
    plain = build_lock('ptlc', pk, None, 100)
    for signer in ('receiver', 'refund', 'outsider'):
        for wk in ('ptlc_tweaked', 'ptlc', 'ptlc_refund'):
            for dt in (-1, 0):
                n += 1
                t = T0 + 100 + dt
                env.Clock.now = t
                w = build_witness(wk, sk, signer, None, sf, tw=tw)
                ctx.state(('tw', name, signer, wk, dt))
                for kind, lk in (('ptlc_tweak', lock), ('ptlc', plain)):
                    want = model(kind, wk, signer, 'right' if wk != 'ptlc_refund' else 'wrong', t, t, T0 + 100)
                    judge(ctx, w, lk, {**sf, 'timestamp': t}, want, {'lock': kind, 'block': 'ptlc tweaks', 'tweak': name},
                          f'{kind} tweak {name} x {wk} signer={signer} t=deadline{dt:+d}', t)
    # a different tweak scalar does not unlock
    other = (int.from_bytes(tw, 'little') + 1).to_bytes(32, 'little') if name != 'L-1' else (5).to_bytes(32, 'little')
    w = build_witness('ptlc_tweaked', sk, 'receiver', None, sf, tw=other)
    judge(ctx, w, lock, {**sf, 'timestamp': T0}, False, {'lock': 'ptlc_tweak', 'block': 'ptlc tweaks', 'tweak': 'other scalar'},
          f'tweak {name}: witness made with another scalar', T0)
    ctx.evaluations += max(n - 1, 0)


def threshold_case(ctx, case):
    """the verifier's own slack threshold (run_script additional_flags) governs the refund path of every lock kind"""
    kind, thr = case
    seed = ctx.seed
    sk, pk = keys(seed)
    sf = fields(seed)
    tw = tweak(seed)
    pre = preimages(seed)
    timeout = 100
    lock = build_lock(kind, pk, pre['right'], timeout, tw=tw)
    deadline = T0 + timeout
    n = 0
    for path, signer, choice in (('refund', 'refund', 'wrong'), ('claim', 'receiver', 'right')):
        wk = matching_witness(kind, path)
        w = build_witness(wk, sk, signer, pre[choice], sf, tw=tw)
        for dt in (-1, 0, 1):
            t = deadline + dt
            for d in (-1, 0, 1, 50):
                now = t - (max(thr, 0) + d)
                env.Clock.now = now
                n += 1
                slack_ok = thr <= 0 or (t - now < thr)
                want = True if path == 'claim' else (t >= deadline and slack_ok)
                try:
                    _, stack, _ = F.run_script(w + lock, {**sf, 'timestamp': t}, additional_flags={'ts_threshold': thr})
                    got = stack.list() == [b'\xff']
                except BaseException:
                    got = False
                ctx.ran()
                ctx.trans(2)
                ctx.state(('thr', kind, thr, path, dt, d))
                ctx.outcome('thr:%s' % got)
                if got is not want:
                    ctx.violation({'lock': kind, 'block': 'custom slack threshold', 'path': path, 'kind': 'accepts' if got else 'rejects'},
                                  f'{kind} {path} ts_threshold={thr} t=deadline{dt:+d} t-now={t - now}: {got}, model {want}')
    ctx.evaluations += max(n - 1, 0)


def flags_case(ctx, case):
    kind, fl, allowed = case
    seed = ctx.seed
    sk, pk = keys(seed)
    sf = {**fields(seed), 'sigfield8': b'\x08\x08'}
    tw = tweak(seed)
    pre = preimages(seed)
    lock = build_lock(kind, pk, pre['right'], 50, flags=allowed, tw=tw)
    permitted = (int(fl, 16) & ~int(allowed, 16) & 0xff) == 0
    n = 0
    for path, signer, choice, t in (('claim', 'receiver', 'right', T0), ('refund', 'refund', 'wrong', T0 + 50)):
        wk = matching_witness(kind, path)
        env.Clock.now = t
        w = build_witness(wk, sk, signer, pre[choice], sf, flags=fl, tw=tw)
        for changed in (None, 'sigfield1', 'sigfield8'):
            n += 1
            cache = {**sf, 'timestamp': t}
            if changed:
                cache[changed] = cache[changed] + b'!'
            cov = changed is not None and not int(fl, 16) >> (int(changed[-1]) - 1) & 1
            want = model(kind, wk, signer, choice, t, t, T0 + 50, permitted, not cov)
            ctx.state(('flags', kind, fl, allowed, path, changed))
            judge(ctx, w, lock, cache, want, {'lock': kind, 'block': 'flags', 'path': path},
                  f'{kind} {path} flag {fl} allowed {allowed} changed field {changed}', t)
    ctx.evaluations += max(n - 1, 0)


EMPTY_SETS = (('no sigfields at all', {}, '00'), ('only field masked by the flags', {'sigfield1': b'only'}, '01'),
              ('both fields masked', {'sigfield1': b'one', 'sigfield2': b'two'}, '03'), ('present but empty field', {'sigfield3': b''}, '00'),
              ('empty field and a masked one', {'sigfield3': b'', 'sigfield8': b'eight'}, '80'))


def empty_message_case(ctx, case):
    """the signed message is empty (no sigfields, all masked by the flags, present but empty): both paths work as with any message"""
    kind, si = case
    name, sfs, fl = EMPTY_SETS[si]
    seed = ctx.seed
    sk, pk = keys(seed)
    tw = tweak(seed)
    pre = preimages(seed)
    n = 0
    try:
        lock = build_lock(kind, pk, pre['right'], 50, flags=fl, tw=tw)
    except BaseException as e:
        ctx.violation({'lock': kind, 'block': 'empty message', 'clause': 'lock builder refuses'}, f'{kind} flags {fl}: {e!r}')
        return
    for path, signer, choice, t in (('claim', 'receiver', 'right', T0), ('refund', 'refund', 'wrong', T0 + 50), ('claim', 'outsider', 'right', T0),
                                    ('refund', 'refund', 'wrong', T0 + 49)):
        wk = matching_witness(kind, path)
        env.Clock.now = t
        n += 1
        try:
            w = build_witness(wk, sk, signer, pre[choice], dict(sfs), flags=fl, tw=tw)
        except BaseException as e:
            ctx.violation({'lock': kind, 'block': 'empty message', 'clause': 'witness builder refuses', 'path': path},
                          f'{kind} {path} witness for "{name}": {e!r}')
            continue
        want = model(kind, wk, signer, choice, t, t, T0 + 50, True, True)
        ctx.state(('empty message', kind, si, path, signer, t))
        judge(ctx, w, lock, {**sfs, 'timestamp': t}, want, {'lock': kind, 'block': 'empty message', 'path': path},
              f'{kind} {path} signer={signer} t={t - T0}: {name}', t)
    ctx.evaluations += max(n - 1, 0)


def builder_clock_case(ctx, case):
    """the lock is built at a clock reading with a fraction of a second: the deadline is (whole second of creation) + timeout"""
    kind, frac, timeout = case
    seed = ctx.seed
    sk, pk = keys(seed)
    sf = fields(seed)
    tw = tweak(seed)
    pre = preimages(seed)
    lock = build_lock(kind, pk, pre['right'], timeout, tw=tw, t0=T0 + frac)
    D = T0 + timeout
    n = 0
    for path, signer, choice in (('refund', 'refund', 'wrong'), ('claim', 'receiver', 'right')):
        wk = matching_witness(kind, path)
        for dt in (-1, 0, 1):
            t = D + dt
            if t < 0:
                continue
            n += 1
            env.Clock.now = t
            w = build_witness(wk, sk, signer, pre[choice], sf, tw=tw)
            want = model(kind, wk, signer, choice, t, t, D)
            ctx.state(('builder clock', kind, frac, timeout, path, dt))
            judge(ctx, w, lock, {**sf, 'timestamp': t}, want, {'lock': kind, 'block': 'builder clock fraction', 'path': path},
                  f'{kind} built at T0+{frac} with timeout {timeout}: {path} at deadline{dt:+d}', t)
    ctx.evaluations += max(n - 1, 0)


def cross_case(ctx, case):
    kind, wk = case
    seed = ctx.seed
    sk, pk = keys(seed)
    sf = fields(seed)
    tw = tweak(seed)
    pre = preimages(seed)
    lock = build_lock(kind, pk, pre['right'], 10, tw=tw)
    n = 0
    for signer in ('receiver', 'refund', 'outsider'):
        for choice in ('right', 'wrong', 'filler', 'filler2', 'filler32', 'filler-1'):
            for dt in (-1, 0):
                n += 1
                t = T0 + 10 + dt
                env.Clock.now = t
                w = build_witness(wk, sk, signer, pre[choice], sf, tw=tw)
                want = model(kind, wk, signer, choice if wk.startswith('htlc') else ('wrong' if wk == 'ptlc_refund' else 'right'),
                             t, t, T0 + 10)
                ctx.state(('cross', kind, wk, signer, choice, dt))
                judge(ctx, w, lock, {**sf, 'timestamp': t}, want, {'lock': kind, 'block': 'cross pairing', 'witness': wk},
                      f'{kind} x {wk} signer={signer} preimage={choice} t=deadline{dt:+d}', t)
    ctx.evaluations += max(n - 1, 0)


def blocks(tier, seed):
    q = tier == 'quick'
    tg = [(k, s, c) + (() if q else ('deep',)) for k in KINDS for s in ('receiver', 'refund', 'outsider') for c in ('right', 'wrong', 'filler')]
    lens = list(range(1, 65))
    pl = [(k, ln) for k in KINDS[:4] for ln in lens]
    pairs = [('00', '00'), ('01', '01'), ('01', '00'), ('80', '81'), ('81', '80'), ('00', 'ff'), ('7e', 'ff'), ('55', 'aa'), ('aa', 'aa')] + \
        [('%02x' % (1 << b), '%02x' % (1 << b)) for b in range(1, 8)] + [('%02x' % (1 << b), '%02x' % (0xff ^ (1 << b))) for b in range(1, 8)]
    if not q:
        pairs = list(dict.fromkeys(pairs + [('%02x' % f, '%02x' % a) for f in range(256) for a in (f, f ^ 0xff, 0xff)]))
    fl = [(k, f, a) for k in KINDS for f, a in pairs]
    cr = [(k, w) for k in KINDS for w in ('htlc', 'htlc2', 'ptlc', 'ptlc_tweaked', 'ptlc_refund')]
    dw = [(k, D) for k in KINDS for D in DEADLINES]
    return [
        Block('deadline_widths', dw, deadline_widths, 'lock kind x deadline at 2^b-1, 2^b, 2^b+1 for b in 7..64 step byte/sign boundaries x '
              '(creation time, timeout) decompositions x path x t=deadline-1..+1', nshards=min(len(dw), 64)),
        Block('custom_slack_threshold', [(k, thr) for k in KINDS for thr in (10, 61, 600, 0, -1)], threshold_case,
              'lock kind x verifier ts_threshold {10, 61, 600, 0, -1} x path x t=deadline-1..+1 x t-now around the threshold', nshards=30),
        Block('time_grid', tg, time_grid, ('lock kind x signer x preimage choice x timeout {0,1,86400,-1,-86400} x t=deadline-1..+1 x t-now in {59, 60, 61, -61, -3600}' if q else 'lock kind x signer x preimage choice x 23 timeouts (byte-width boundaries, negative) x t=deadline-2..+2,+3600 x t-now in {58..62, 0, +-1, -61, -3600}'), nshards=len(tg)),
        Block('preimage_lengths', pl, preimage_lengths, 'preimage lengths %s x right/wrong x signer; SHAKE digest sizes 1,2,8,15,16,17,20,31,32,33,63,64,65,96,126,127; before and at the deadline' %
              ('1..64'), nshards=min(len(pl), 128)),
        Block('ptlc_tweak_scalars', tweak_scalars(seed), ptlc_tweaks, 'tweak scalars {1, L-1, clamped, unclamped, 2^254+} x witness kinds x signers', nshards=5),
        Block('sigflags_and_fields', fl, flags_case, 'flag/allowed pairs (every single bit permitted / alone not permitted, mixed patterns) x covered / excluded field changes, both paths', nshards=min(len(fl), 256)),
        Block('builder_clock_fractions', [(k, fr, to) for k in KINDS for fr in (0.25, 0.5, 0.75, 0.999) for to in (0, 1, 50)], builder_clock_case,
              'lock kind x creation clock T0 + {.25, .5, .75, .999} x timeout {0, 1, 50} x both paths at deadline-1..+1', nshards=30),
        Block('empty_signed_message', [(k, i) for k in KINDS for i in range(len(EMPTY_SETS))], empty_message_case,
              'lock kind x 5 ways of signing the empty message (no fields, all masked, present but empty) x claim / refund / outsider / too early', nshards=30),
        Block('cross_pairings', cr, cross_case, 'all witness kinds x all lock kinds x signers x preimage choices', nshards=len(cr)),
    ]


def meta(tier, seed):
    assert refed.selftest()
    return dict(
        rule='complete grids executed through the real builders and run_auth_scripts; virtual clock = T0 at build time (deadline = T0 + '
             'timeout) and moved before the run; model from the statement + ref.refvm on the same bytes',
        states_meaning='distinct grid points; transitions = scripts run',
        bounds={'preimage_lengths': '1..64', 'timeouts': [0, 1, 86400, -1, -86400] if tier == 'quick' else list(TIMEOUTS_DEEP), 'deadline_widths': '2^b + {-1,0,1}, b in 7,8,15,16,...,62,63,64', 'slack_threshold': THR},
        assumptions=['tweak scalars are valid 255-bit scalars (bit 255 clear)', 'hash preimage resistance / Ed25519 hardness for rejections'],
    )
