"""C09 - embedder configuration applies uniformly at every nesting level.

Every nesting context of depth 0..N over ten context kinds is wrapped around every probe and run
under every configuration; the real VM is compared with ref.refvm (stack, script-visible cache,
raised / not) and the number of signature-extension plugin calls is compared with the number of
signature-related instructions the reference executed.
"""
import hashlib
import itertools

from mc import env, stepspace
from mc.diff import run_ref, judge, compare
from mc.run import Block
from ref import refed
from ref.optable import op, push

F = env.functions
KINDS = ('IF', 'IFELSE_T', 'IFELSE_F', 'TRY', 'EXCEPT', 'LOOP', 'FUNC', 'EVAL', 'MERKLEVAL', 'TAPROOT')
LIMITS = (1024, 60000, 128)


def blk(b):
    return len(b).to_bytes(2, 'big') + b


def P(b):
    return push(b) if len(b) else b'\x03\x00'


def wrap(kind, body, level, seed):
    if kind == 'IF':
        return op('TRUE') + op('IF') + blk(body)
    if kind == 'IFELSE_T':
        return op('TRUE') + op('IF_ELSE') + blk(body) + blk(op('FALSE') + op('VERIFY'))
    if kind == 'IFELSE_F':
        return op('FALSE') + op('IF_ELSE') + blk(op('FALSE') + op('VERIFY')) + blk(body)
    if kind == 'TRY':
        return op('TRY_EXCEPT') + blk(body) + blk(P(b'\xee'))
    if kind == 'EXCEPT':
        return op('TRY_EXCEPT') + blk(op('FALSE') + op('VERIFY')) + blk(body)
    if kind == 'LOOP':
        return op('TRUE') + op('LOOP') + blk(op('POP0') + body + op('FALSE')) + op('POP0')
    if kind == 'FUNC':
        h = bytes([0x20 + level])
        return op('DEF') + h + blk(body) + op('CALL') + h
    if kind == 'EVAL':
        return P(body) + op('EVAL')
    if kind == 'MERKLEVAL':
        sib = b'sibling-commitment'
        a = hashlib.sha256(hashlib.sha256(body).digest()).digest()
        b = hashlib.sha256(sib).digest()
        root = bytes(x ^ y for x, y in zip(a, b))
        return P(sib) + P(body) + op('MERKLEVAL') + root
    if kind == 'TAPROOT':
        pub = refed.public_key(env.sym(seed, 'c9.internal'))
        t = refed.clamp_scalar(hashlib.sha256(pub + hashlib.sha256(body).digest()).digest())
        root = refed.add_enc(refed.scalarmult_base_noclamp(t), pub)
        return P(body) + P(pub) + P(root) + op('TAPROOT') + b'\x00'
    raise ValueError(kind)


def contexts(maxdepth):
    yield ()
    for d in range(1, maxdepth + 1):
        yield from itertools.product(KINDS, repeat=d)


def build(ctxkinds, probe, seed):
    body = probe
    for level, k in enumerate(reversed(ctxkinds)):
        body = wrap(k, body, level, seed)
    return P(b'\xa0') + body + P(b'\xaf')


# ---------------------------------------------------------------- probes and configurations
class Counter:
    def __init__(self):
        self.n = 0

    def __call__(self, tape, stack, cache):
        self.n += 1


def ct_plugin(tape, stack, cache):
    """check_template plugin: template matches when it is the reversed field"""
    t = stack.get()
    f = stack.get()
    return t == f[::-1]


def ct_ref(field, template):
    return template == field[::-1]


def probes(seed):
    ks = env.sym(seed, 'c9.K')
    pk = refed.public_key(ks)
    f1 = env.sym(seed, 'c9.f1', 5)
    ro = {'sigfield1': f1, 'sigfield2': b'\x22\x22'}
    now = 1_700_000_000
    sig = refed.sign(ks, f1 + b'\x22\x22')
    two = (2).to_bytes(32, 'little')
    G2 = refed.base_mul_enc(2)
    masu = P(ks) + P(b'm') + P(G2) + op('MAKE_ADAPTER_SIG_PUBLIC')
    pr = {}
    pr['INVOKE'] = P(b'a') + P(b'\x01') + P(b'c1') + op('INVOKE')
    pr['DERIVE_SCALAR'] = P(ks) + op('DERIVE_SCALAR')
    pr['DERIVE_POINT'] = P(two) + op('DERIVE_POINT')
    pr['MASU'] = masu
    pr['MASV'] = P(b'm') + P(two) + P(ks) + op('MAKE_ADAPTER_SIG_PRIVATE')
    pr['DAS'] = P((5).to_bytes(32, 'little')) + P(G2) + P(two) + op('DECRYPT_ADAPTER_SIG')
    pr['SIGN'] = P(ks) + op('SIGN') + b'\x00'
    pr['SIGN_STACK'] = P(b'm') + P(ks) + op('SIGN_STACK')
    pr['CHECK_TEMPLATE'] = P(f1) + op('CHECK_TEMPLATE') + b'\x01'
    pr['CHECK_TEMPLATE_00'] = op('CHECK_TEMPLATE') + b'\x00'
    pr['CHECK_TEMPLATE_03'] = P(b'\x22\x22') + P(f1) + op('CHECK_TEMPLATE') + b'\x03'
    pr['CHECK_TEMPLATE_rev'] = P(f1[::-1]) + op('CHECK_TEMPLATE') + b'\x01'
    pr['GET_MESSAGE'] = op('GET_MESSAGE') + b'\x00'
    pr['CHECK_SIG'] = P(sig) + P(pk) + op('CHECK_SIG') + b'\x00'
    pr['CHECK_SIG_VERIFY'] = P(sig) + P(pk) + op('CHECK_SIG_VERIFY') + b'\x00'
    pr['CHECK_MULTISIG'] = P(sig) + P(pk) + op('CHECK_MULTISIG') + b'\x00\x01\x01'
    pr['CTS'] = P((now).to_bytes(4, 'big')) + op('CHECK_TIMESTAMP')
    pr['CE'] = P((now + 10).to_bytes(4, 'big')) + op('CHECK_EPOCH')
    pr['EVAL'] = op('TRY_EXCEPT') + blk(P(op('TRUE')) + op('EVAL') + P(b'\xa1')) + blk(P(b'\xb1'))
    pr['EVAL_RETURN'] = P(op('RETURN')) + op('EVAL') + P(b'\xa2')
    pr['CHECK_TRANSFER'] = P(b'\x01\x03') + P(b'\x01s') + P(b'\x01') + P(b'dest') + P(b'') + P(b'\x02') + P(b'c2') + op('CHECK_TRANSFER')
    pr['TAPROOT_KEY'] = P(sig) + P(pk) + op('TAPROOT') + b'\x00'
    return pr, ro, now


FLAG_PROBE = {0: 'INVOKE', 1: 'DERIVE_SCALAR', 2: 'DERIVE_POINT', 3: 'MASU', 4: 'MASU', 5: 'MASV', 6: 'MASU', 7: 'DAS',
              8: 'MASU', 9: 'SIGN', 10: 'CHECK_TEMPLATE'}
FLAG_KEY = {0: b'IR', 1: b'x', 2: b'X', 3: b'r', 4: b'R', 5: b't', 6: b'T', 7: b'RT', 8: b'sa', 9: b's'}


def configurations(seed):
    """(name, probe name, additional_flags, plugins mode, extra-prefix-in-body)"""
    cfg = []
    for k in range(11):
        cfg.append(('flag %d off' % k, FLAG_PROBE[k], {k: False}, None, b''))
    cfg.append(('flag 9 off SIGN_STACK', 'SIGN_STACK', {9: False}, None, b''))
    # the other documented way of turning a flag off: taking it out of functions.flags_to_set
    for k in range(11):
        cfg.append(('flag %d off (removed from flags_to_set)' % k, FLAG_PROBE[k], {}, ('fts', k), b''))
    cfg.append(('flag 10 off (removed from flags_to_set) + sigext plugin', 'CHECK_TEMPLATE', {}, ('fts+plugin', 10), b''))
    cfg.append(('flag 4 off MASV', 'MASV', {4: False}, None, b''))
    cfg.append(('flag 9 off DAS', 'DAS', {9: False}, None, b''))
    for name in sorted(set(FLAG_PROBE.values())) + ['SIGN_STACK']:
        cfg.append(('all flags on ' + name, name, {}, None, b''))
    cfg.append(('ts_threshold 5', 'CTS', {'ts_threshold': 5}, None, b''))
    cfg.append(('ts_threshold 0', 'CTS', {'ts_threshold': 0}, None, b''))
    cfg.append(('ts_threshold default', 'CTS', {}, None, b''))
    cfg.append(('epoch_threshold 5', 'CE', {'epoch_threshold': 5}, None, b''))
    cfg.append(('epoch_threshold 11', 'CE', {'epoch_threshold': 11}, None, b''))
    cfg.append(('disallow_OP_EVAL', 'EVAL', {'disallow_OP_EVAL': True}, None, b''))
    cfg.append(('EVAL allowed', 'EVAL', {}, None, b''))
    cfg.append(('eval_return', 'EVAL_RETURN', {'eval_return': True}, None, b''))
    cfg.append(('eval_return off', 'EVAL_RETURN', {}, None, b''))
    cfg.append(('eval_return False', 'EVAL_RETURN', {'eval_return': False}, None, b''))
    cfg.append(('eval_return 0', 'EVAL_RETURN', {'eval_return': 0}, None, b''))
    cfg.append(('eval_return 1', 'EVAL_RETURN', {'eval_return': 1}, None, b''))
    for name in ('GET_MESSAGE', 'CHECK_SIG', 'CHECK_SIG_VERIFY', 'CHECK_MULTISIG', 'SIGN', 'CHECK_TEMPLATE', 'TAPROOT_KEY',
                 'CHECK_TEMPLATE_00', 'CHECK_TEMPLATE_03'):
        cfg.append(('sigext plugin per run ' + name, name, {}, 'run', b''))
    cfg.append(('sigext plugin global SIGN', 'SIGN', {}, 'global', b''))
    cfg.append(('sigext plugin global CHECK_SIG', 'CHECK_SIG', {}, 'global', b''))
    # registering the same extension a second time does not make it run twice
    cfg.append(('sigext plugin global-twice CHECK_SIG', 'CHECK_SIG', {}, 'global-twice', b''))
    cfg.append(('sigext plugin global-twice GET_MESSAGE', 'GET_MESSAGE', {}, 'global-twice', b''))
    # flag 10 governs CHECK_TEMPLATE only: with it off, the extensions still run before every other signature instruction
    for nm in ('GET_MESSAGE', 'SIGN', 'CHECK_SIG', 'CHECK_SIG_VERIFY', 'CHECK_MULTISIG', 'TAPROOT_KEY'):
        cfg.append(('sigext plugin + flag 10 off ' + nm, nm, {10: False}, 'run', b''))
    cfg.append(('sigext plugin + flag 10 off CHECK_TEMPLATE', 'CHECK_TEMPLATE', {10: False}, 'run', b''))
    cfg.append(('check_template plugin per run', 'CHECK_TEMPLATE_rev', {}, 'ct-run', b''))
    cfg.append(('check_template plugin global', 'CHECK_TEMPLATE_rev', {}, 'ct-global', b''))
    cfg.append(('contract per run INVOKE', 'INVOKE', {}, None, b''))
    cfg.append(('contract global INVOKE', 'INVOKE', {}, 'contract-global', b''))
    cfg.append(('contract per run CHECK_TRANSFER', 'CHECK_TRANSFER', {}, None, b''))
    # a contract supplied to the run is the one reached, also when another object is registered globally under the same id
    cfg.append(('contract per run INVOKE, id also registered', 'INVOKE', {}, 'contract-shadowed', b''))
    # the flag instructions change exactly the flag they name (probe of k and of its neighbours in the same body)
    for k in range(11):
        for instr, fl in (('UNSET_FLAG', {}), ('SET_FLAG', {k: False})):
            for pk_ in (k, (k + 1) % 10 if k not in (9, 10) else 1):
                cfg.append(('%s %d then probe %d' % (instr, k, pk_), FLAG_PROBE[pk_], dict(fl), None,
                            op(instr) + b'\x01' + bytes([k])))
    # operands of more than one byte name the integer they encode: a zero-padded k is flag k, 256*h + k is not a flag at all
    for k in range(11):
        for instr, fl in (('UNSET_FLAG', {}), ('SET_FLAG', {k: False})):
            for hi in ((0, 1, 255) if instr == 'SET_FLAG' else (0, 1)):
                cfg.append(('%s x%02x%02x then probe %d' % (instr, hi, k, k), FLAG_PROBE[k], dict(fl), None,
                            op(instr) + b'\x02' + bytes([hi, k])))
    # the flag instructions reach integer flags only: a named (str-keyed) setting of the embedder spelled out in utf-8 is not a flag
    for fname, pname, fl in (('disallow_OP_EVAL', 'EVAL', {'disallow_OP_EVAL': True}), ('ts_threshold', 'CTS', {'ts_threshold': 5}),
                             ('epoch_threshold', 'CE', {'epoch_threshold': 5}), ('eval_return', 'EVAL_RETURN', {'eval_return': True})):
        for instr in ('UNSET_FLAG', 'SET_FLAG'):
            cfg.append(('%s %s (utf-8 name) then probe' % (instr, fname), pname, dict(fl), None,
                        op(instr) + bytes([len(fname)]) + fname.encode()))
    for k, pname in ((7, 'DAS'), (9, 'DAS'), (9, 'SIGN_STACK'), (4, 'MASV'), (5, 'MASV'), (6, 'MASV'), (3, 'MASV'), (8, 'MASV')):
        cfg.append(('UNSET_FLAG %d then probe %s' % (k, pname), pname, {}, None, op('UNSET_FLAG') + b'\x01' + bytes([k])))
    return cfg


def case_fn(ctx, case):
    ci, ctxkinds = case
    seed = ctx.seed
    pr, ro, now = probes(seed)
    name, pname, flags, mode, prefix = configurations(seed)[ci]
    env.Clock.now = now
    script = build(ctxkinds, prefix + pr[pname], seed)
    ctx.state((ci, ctxkinds))
    contracts = dict(stepspace.CONTRACTS)
    plugins, counter, ct = {}, None, None
    glob = []
    if mode in ('run', 'global', 'global-twice'):
        counter = Counter()
        if mode == 'run':
            plugins['signature_extensions'] = [counter]
        else:
            F.add_signature_extension(counter)
            if mode == 'global-twice':
                F.add_signature_extension(counter)
            glob.append(lambda: F.reset_signature_extensions() if hasattr(F, 'reset_signature_extensions') else F.remove_signature_extension(counter))
    if mode in ('ct-run', 'ct-global'):
        ct = [ct_ref]
        if mode == 'ct-run':
            plugins['check_template'] = [ct_plugin]
        else:
            F.add_plugin('check_template', ct_plugin)
            glob.append(lambda: F.remove_plugin('check_template', ct_plugin))
    run_contracts = contracts
    if mode == 'contract-global':
        F.add_contract(b'c1', contracts[b'c1'])
        glob.append(lambda: F.remove_contract(b'c1'))
        run_contracts = {}
    if mode == 'contract-shadowed':
        class Shadow:
            def abi(self, args):
                return [b'registered one']
        F.add_contract(b'c1', Shadow())
        glob.append(lambda: F.remove_contract(b'c1'))
    ref_flags = flags
    if type(mode) is tuple:
        k_off = mode[1]
        saved_fts = list(F.flags_to_set)
        if k_off in F.flags_to_set:
            F.flags_to_set.remove(k_off)
        glob.append(lambda: F.flags_to_set.__setitem__(slice(None), saved_fts))
        ref_flags = {**flags, k_off: False}
        if mode[0] == 'fts+plugin':
            counter = Counter()
            plugins['signature_extensions'] = [counter]
    env.Rand.reset(b'diff')
    try:
        try:
            tape, stack, cache = F.run_script(script, dict(ro), contracts=run_contracts, additional_flags=dict(flags),
                                              plugins=plugins, stack_max_items=LIMITS[0], stack_max_item_size=LIMITS[1],
                                              callstack_limit=LIMITS[2])
            impl = (None, stack.list(), cache)
        except BaseException as e:
            if isinstance(e, (KeyboardInterrupt, SystemExit, MemoryError)):
                raise
            impl = (e, None, None)
    finally:
        for g in glob:
            g()
    ref, e = run_ref([script], ro, None, ref_flags, LIMITS, contracts, now, ct_plugins=ct)
    ctx.ran(2)
    ctx.trans(len(ctxkinds) + 1)
    res = judge(impl, ref)
    sigbase = {'config': name.split(' ')[0] + ' ' + (name.split(' ')[1] if name.startswith(('flag', 'sigext', 'check_template', 'contract')) else ''),
               'innermost': ctxkinds[-1] if ctxkinds else 'top'}
    if res.verdict == 'unspec':
        ctx.unspec(res.why)
        return
    ctx.outcome(res.verdict + ':' + res.why)
    if res.verdict == 'viol':
        ctx.violation({**sigbase, 'why': res.why, 'probe': pname},
                      f'config "{name}" context {ctxkinds} script {script.hex()[:400]}: {res.detail[:600]}')
        return
    if counter is not None and impl[0] is None:
        if counter.n != e.sigext_calls:
            ctx.violation({**sigbase, 'why': 'plugin call count', 'probe': pname},
                          f'config "{name}" context {ctxkinds}: signature-extension plugin ran {counter.n} times, reference executed '
                          f'{e.sigext_calls} signature-related instructions; script {script.hex()[:300]}')
    # direct statement of the documented effect (independent of the reference): flag off => side effect absent
    if name.startswith('flag ') and 'off' in name and impl[0] is None:
        k = int(name.split(' ')[1])
        if k in FLAG_KEY and FLAG_KEY[k] in impl[2]:
            ctx.violation({**sigbase, 'why': 'flag turned off by the embedder but the side effect happened', 'probe': pname},
                          f'config "{name}" context {ctxkinds}: cache key {FLAG_KEY[k]!r} present')


def persistence_case(ctx, case):
    """a flag changed by SET/UNSET_FLAG keeps its value for later instructions of the same body, whatever construct
    runs in between (each context kind around nothing / a CALL of an empty function / another probe)"""
    outer, k, instr, emb_off, mid_kind, mid_body = case
    seed = ctx.seed
    pr, ro, now = probes(seed)
    env.Clock.now = now
    flags = {k: False} if emb_off else {}
    mids = {'nothing': b'', 'call': op('CALL') + b'\x30', 'probe': pr[FLAG_PROBE[(k + 1) % 10 if k != 9 else 1]]}
    mid = wrap(mid_kind, mids[mid_body], 5, seed) if mid_kind != 'none' else mids[mid_body]
    body = op('DEF') + b'\x30' + blk(b'') + op(instr) + b'\x01' + bytes([k]) + mid + pr[FLAG_PROBE[k]]
    script = build(outer, body, seed)
    ctx.state(('persist', case))
    contracts = dict(stepspace.CONTRACTS)
    env.Rand.reset(b'diff')
    try:
        tape, stack, cache = F.run_script(script, dict(ro), contracts=contracts, additional_flags=dict(flags),
                                          stack_max_items=LIMITS[0], stack_max_item_size=LIMITS[1], callstack_limit=LIMITS[2])
        impl = (None, stack.list(), cache)
    except BaseException as e:
        if isinstance(e, (KeyboardInterrupt, SystemExit, MemoryError)):
            raise
        impl = (e, None, None)
    ref, e = run_ref([script], ro, None, flags, LIMITS, contracts, now)
    ctx.ran(2)
    ctx.trans(4)
    res = judge(impl, ref)
    if res.verdict == 'unspec':
        ctx.unspec(res.why)
        return
    ctx.outcome('persist:' + res.verdict)
    if res.verdict == 'viol':
        ctx.violation({'config': instr + ' persistence', 'between': mid_kind + ':' + mid_body, 'why': res.why},
                      f'{instr} {k} (embedder off={emb_off}) then {mid_kind}({mid_body}) then probe, inside {outer}: {res.detail[:500]}')


def later_script_case(ctx, case):
    """plugins and contracts given to run_auth_scripts govern every script of the list, not only the first"""
    ci, ctxkinds, pos = case
    seed = ctx.seed
    pr, ro, now = probes(seed)
    name, pname, flags, mode, prefix = configurations(seed)[ci]
    env.Clock.now = now
    script = build(ctxkinds, prefix + pr[pname], seed)
    filler = P(b'\x55') + op('POP0')
    scripts = [filler] * pos + [script] + [filler] * (2 - pos)
    ctx.state(('later', ci, ctxkinds, pos))
    contracts = dict(stepspace.CONTRACTS)
    plugins, counter, ct = {}, None, None
    glob = []
    if mode in ('run', 'global'):
        counter = Counter()
        if mode == 'run':
            plugins['signature_extensions'] = [counter]
        else:
            F.add_signature_extension(counter)
            glob.append(lambda: F.remove_signature_extension(counter))
    if mode in ('ct-run', 'ct-global'):
        ct = [ct_ref]
        if mode == 'ct-run':
            plugins['check_template'] = [ct_plugin]
        else:
            F.add_plugin('check_template', ct_plugin)
            glob.append(lambda: F.remove_plugin('check_template', ct_plugin))
    # the verdict of these lists rarely depends on the contract call, so the calls themselves are counted on both sides
    class CountingAbi:
        def __init__(self, inner):
            self.inner, self.n = inner, 0

        def abi(self, args):
            self.n += 1
            return self.inner.abi(args)
    impl_c1, ref_c1 = CountingAbi(contracts[b'c1']), CountingAbi(contracts[b'c1'])
    run_contracts = {**contracts, b'c1': impl_c1}
    contracts = {**contracts, b'c1': ref_c1}
    if mode == 'contract-global':
        F.add_contract(b'c1', impl_c1)
        glob.append(lambda: F.remove_contract(b'c1'))
        run_contracts = {}
    env.Rand.reset(b'diff')
    try:
        try:
            v = F.run_auth_scripts(scripts, dict(ro), run_contracts, plugins, stack_max_items=LIMITS[0],
                                   stack_max_item_size=LIMITS[1], callstack_limit=LIMITS[2])
        except BaseException as e:
            v = e
    finally:
        for g in glob:
            g()
    from mc.diff import run_ref
    ref, e = run_ref(scripts, ro, None, None, LIMITS, contracts, now, ct_plugins=ct)
    ctx.ran(2)
    ctx.trans(3)
    if ref[0] == 'unspec':
        ctx.unspec(ref[1])
        return
    want = ref[0] == 'ok' and len(ref[1]) == 1 and bytes(ref[1][0]) == b'\xff' and type(ref[1][0]).__name__ != 'Wild'
    sigbase = {'config': name.split(' ')[0] + ' ' + name.split(' ')[1], 'where': 'script %d of run_auth_scripts' % (pos + 1)}
    if impl_c1.n != ref_c1.n:
        ctx.violation({**sigbase, 'why': 'contract call count', 'probe': pname},
                      f'config "{name}" context {ctxkinds} position {pos}: contract c1 called {impl_c1.n} times, reference {ref_c1.n}')
    ctx.outcome('auth:%s' % v)
    if v is not want and not (ref[0] == 'ok' and any(type(x).__name__ == 'Wild' for x in ref[1])):
        ctx.violation({**sigbase, 'why': 'verdict', 'probe': pname}, f'config "{name}" context {ctxkinds} position {pos}: {v!r}, reference {want}')
    if counter is not None and (ref[0] == 'ok'):
        if counter.n != e.sigext_calls:
            ctx.violation({**sigbase, 'why': 'plugin call count', 'probe': pname},
                          f'config "{name}" context {ctxkinds} position {pos}: plugin ran {counter.n} times, reference executed '
                          f'{e.sigext_calls} signature-related instructions')


def limit_probes():
    """probes that need a known amount of each limit: d nested EVALs, a loop of i iterations, an item of s bytes"""
    out = []
    for d in (1, 2, 3):
        body = P(b'\xd0')
        for _ in range(d):
            body = P(body) + op('EVAL')
        out.append(('eval depth %d' % d, body))
    for d in (1, 2):
        # d nested function calls
        body = P(b'\xd1')
        for lvl in range(d):
            h = bytes([0x60 + lvl])
            body = op('DEF') + h + blk(body) + op('CALL') + h
        out.append(('call depth %d' % d, body))
    for i in (1, 2, 3):
        # loop with exactly i iterations (counter items on the stack)
        out.append(('loop %d iterations' % i, op('FALSE') + op('TRUE') * i + op('LOOP') + blk(op('POP0')) + op('POP0')))
    for sz in (4, 5, 9):
        out.append(('item of %d bytes' % sz, P(b'\x07' * sz) + op('POP0')))
    return out


LIMIT_TRIPLES = [(1024, 60000, cl) for cl in (1, 2, 3, 4, 5)] + [(1024, 4, 128), (1024, 8, 128), (8, 60000, 128), (5, 60000, 128)]


def limits_case(ctx, case):
    """the limits given to the run bind every nested body exactly as they bind the top level: each probe needs a known
    amount of call depth / loop iterations / item size, each context adds a known amount; verdict from the reference"""
    ctxkinds, pi = case
    seed = ctx.seed
    name, probe = limit_probes()[pi]
    script = build(ctxkinds, probe, seed)
    n = 0
    for limits in LIMIT_TRIPLES:
        n += 1
        ctx.state(('limits', ctxkinds, pi, limits))
        r = compare(script, limits=limits)
        ctx.ran(2 if r.verdict != 'unspec' else 1)
        ctx.trans(len(ctxkinds) + 1)
        if r.verdict == 'unspec':
            ctx.unspec(r.why)
            continue
        ctx.outcome('limits:' + r.verdict + ':' + r.why)
        if r.verdict == 'viol':
            ctx.violation({'config': 'limits', 'innermost': ctxkinds[-1] if ctxkinds else 'top', 'why': r.why,
                           'probe': name.split(' ')[0]},
                          f'{name} in context {ctxkinds} limits {limits} script {script.hex()[:300]}: {r.detail[:400]}')
    ctx.evaluations += n - 1


def blocks(tier, seed):
    q = tier == 'quick'
    depth = 2 if q else 4
    ncfg = len(configurations(seed))
    cs = list(contexts(depth))
    cases = [(ci, c) for c in cs for ci in range(ncfg)]
    cfgs = configurations(seed)
    later_cfg = [i for i, c in enumerate(cfgs) if c[3] is not None or c[0].startswith('contract') or c[0].startswith('all flags on')]
    later = [(ci, c, pos) for c in contexts(1 if q else 2) for ci in later_cfg for pos in (0, 1, 2)]
    lcases = [(c, pi) for c in contexts(2 if q else 3) for pi in range(len(limit_probes()))]
    return [Block('limits_in_contexts', lcases, limits_case,
                  'call-depth / loop-count / item-size probes x every context of depth <= %d x %d limit triples' % (2 if q else 3, len(LIMIT_TRIPLES)),
                  nshards=128),
            Block('contexts_x_configurations', cases, case_fn,
                  'every nesting context of depth <= %d over %d kinds (%d contexts) x %d (configuration, probe) pairs'
                  % (depth, len(KINDS), len(cs), ncfg), nshards=128),
            Block('flag_instruction_persistence',
                  [(outer, k, instr, emb, mk, mb) for outer in contexts(1) for k in (1, 2, 9) for instr, emb in
                   (('UNSET_FLAG', False), ('UNSET_FLAG', True), ('SET_FLAG', True))
                   for mk in ('none',) + KINDS for mb in ('nothing', 'call', 'probe')], persistence_case,
                  'flag instruction, then every construct kind around {nothing, CALL, other probe}, then the probe in the same body; '
                  'inside every context of depth <= 1', nshards=64),
            Block('later_scripts_of_run_auth_scripts', later, later_script_case,
                  'plugin / contract configurations x contexts of depth <= %d x probe in script 1, 2 or 3 of a run_auth_scripts list'
                  % (1 if q else 2), nshards=64)]


def meta(tier, seed):
    q = tier == 'quick'
    return dict(
        rule='complete product contexts x configurations; each case through run_script with additional_flags / plugins / contracts and '
             'through ref.refvm; plus plugin-call-count == signature-related instructions executed and flag-off => side-effect absent',
        states_meaning='distinct (configuration, nesting context) pairs; transitions = constructs entered + probe',
        bounds={'context_depth': 2 if q else 4, 'context_kinds': list(KINDS)},
        assumptions=['scope of a flag changed by SET/UNSET_FLAG across body boundaries is not documented: only later instructions of '
                     'the same body are judged', 'adapter-maker outputs (nonce dependent) are compared as wildcards'],
    )
