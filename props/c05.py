"""C05 - taproot: the root binds key and script; key path and script path are exact.

Root identity re-derived with reference Ed25519 arithmetic; key path over all flag values x allowed
masks with reference signatures and all bit corruptions; script path over every corruption of
script / key / root incl. the point-subtraction attack, with a recording contract proving that no
instruction of a rejected script runs; builders end to end; native vs non-native locks on the
adversarial witness family of C01.
"""
import hashlib

from mc import env, spaces
from mc.diff import ref_auth
from mc.run import Block
from ref import refed
from ref.optable import op, push

F, T = env.functions, env.tools
CID = b'recorder'


class Recorder:
    def __init__(self):
        self.log = []

    def abi(self, args):
        self.log.append(args[0] if args else None)
        return None


def P(b):
    return push(b) if len(b) else b'\x03\x00'


def sha(b):
    return hashlib.sha256(b).digest()


def committed_script(j):
    """records j through the recording contract, then leaves true"""
    return P(bytes([j])) + P(b'\x01') + P(CID) + op('INVOKE') + P(b'pad' + bytes([j])) + op('POP0') + op('TRUE')


def ref_root(pub, script):
    t = refed.clamp_scalar(sha(pub + sha(script)))
    return refed.add_enc(refed.scalarmult_base_noclamp(t), pub), t


def scripts_covering_clamp_patterns(pub, want=32, limit=4000):
    """deterministic script family searched until every (low 3 bits, top 2 bits) pattern of sha256(P||sha256(S)) occurred"""
    seen, out = set(), []
    j = 0
    while len(seen) < want and j < limit:
        s = committed_script(j % 256) + (P(j.to_bytes(2, 'big')) + op('POP0') if j >= 256 else b'')
        h = sha(pub + sha(s))
        pat = (h[0] & 7, h[31] >> 6)
        if pat not in seen:
            seen.add(pat)
            out.append((j, s))
        j += 1
    return out


def run_auth(scripts, cache=None):
    rec = Recorder()
    try:
        v = F.run_auth_scripts(list(scripts), dict(cache or {}), {CID: rec})
    except BaseException as e:
        v = e
    return v, rec.log


def sigfields(seed, which):
    return {'sigfield%d' % i: env.sym(seed, 'c5.f%d' % i, 4 + i) for i in which}


def msg(sf, flag):
    return b''.join(sf[k] for k in sorted(sf) if not flag >> (int(k[-1]) - 1) & 1)


def flip(b, bit):
    ba = bytearray(b)
    ba[bit // 8] ^= 1 << (bit % 8)
    return bytes(ba)


# ---------------------------------------------------------------- (A) root identity + (D) builders
def root_case(ctx, k):
    seed = ctx.seed
    ks = env.sym(seed, 'c5.K%d' % k)
    pub = refed.public_key(ks)
    n = 0
    for j, s in scripts_covering_clamp_patterns(pub):
        n += 1
        ctx.state(('root', k, j))
        root, t = ref_root(pub, s)
        for fl in ('00', 'a5'):
            lock = T.make_taproot_lock(pub, T.Script.from_bytes(s), sigflags=fl).bytes
            want = P(root) + op('TAPROOT') + bytes.fromhex(fl)
            ctx.ran()
            if lock != want:
                ctx.violation({'clause': 'root = P + clamp(sha256(P || sha256(S))) * G'},
                              f'seed K{k} script {j}: lock {lock.hex()} want {want.hex()}')
            lock2 = T.make_taproot_lock(pub, script_commitment=sha(s), sigflags=fl).bytes
            if lock2 != want:
                ctx.violation({'clause': 'lock from script_commitment equals lock from script'}, f'seed K{k} script {j}')
        # script-spend builder witness runs the script (recorder sees it) and authorizes
        lock = T.make_taproot_lock(pub, T.Script.from_bytes(s)).bytes
        w = T.make_taproot_witness_scriptspend(pub, T.Script.from_bytes(s)).bytes
        v, log = run_auth([w, lock])
        ctx.ran()
        ctx.trans(3)
        if v is not True or log != [bytes([j % 256])]:
            ctx.violation({'clause': 'script-spend witness made by the builder unlocks its lock'}, f'seed K{k} script {j}: {v!r} {log}')
        # non-native lock gives the same verdict
        nn = T.make_nonnative_taproot_lock(pub, T.Script.from_bytes(s)).bytes
        v2, log2 = run_auth([w, nn])
        ctx.ran()
        if v2 is not v or log2 != log:
            ctx.violation({'clause': 'native == non-native', 'witness': 'script spend'}, f'seed K{k} script {j}: {v!r}/{log} vs {v2!r}/{log2}')
    ctx.evaluations += n - 1


SMALL_ORDER = [bytes.fromhex(h) for h in (
    'ecffffffffffffffffffffffffffffffffffffffffffffffffffffffffffff7f',      # order 2
    '0000000000000000000000000000000000000000000000000000000000000000',      # order 4
    '0000000000000000000000000000000000000000000000000000000000000080',      # order 4
    '26e8958fc2b227b045c3f489f2ef98f0d5dfac05d3c63339b13802886d53fc05',      # order 8
    '26e8958fc2b227b045c3f489f2ef98f0d5dfac05d3c63339b13802886d53fc85',      # order 8
    'c7176a703d4dd84fba3c0b760d10670f2a2053fa2c39ccc64ec7fd7792ac037a',      # order 8
    'c7176a703d4dd84fba3c0b760d10670f2a2053fa2c39ccc64ec7fd7792ac03fa')]     # order 8


def torsion_case(ctx, ti):
    """internal keys with a small-order component (P + T) and the small-order points themselves, with a root made from
    them by hand: whatever the verdict is, the native instruction and the non-native lock agree, and the committed
    script runs only when the verdict is true"""
    seed = ctx.seed
    pub = refed.public_key(env.sym(seed, 'c5.K0'))
    Tt = SMALL_ORDER[ti]
    n = 0
    for K in (refed.add_enc(pub, Tt), Tt):
        if K is None:
            continue
        for j, s in scripts_covering_clamp_patterns(pub)[:4]:
            n += 1
            ctx.state(('torsion', ti, K, j))
            t = refed.clamp_scalar(hashlib.sha256(K + sha(s)).digest())
            root = refed.add_enc(refed.scalarmult_base_noclamp(t), K)
            if root is None:
                continue
            honest_root, _ = ref_root(pub, s)
            native = T.make_taproot_lock(pub, T.Script.from_bytes(s)).bytes.replace(honest_root, root)
            nn = T.make_nonnative_taproot_lock(pub, T.Script.from_bytes(s)).bytes.replace(honest_root, root)
            if root not in native or root not in nn:
                raise AssertionError('root not embedded in the lock bytes')
            w = P(s) + P(K)
            v, log = run_auth([w, native])
            v2, log2 = run_auth([w, nn])
            ctx.ran(2)
            ctx.trans(4)
            ctx.outcome('torsion:%s' % v)
            if v2 is not v or log2 != log:
                ctx.violation({'clause': 'native == non-native', 'witness': 'script spend with a small-order key component'},
                              f'T={Tt.hex()[:16]} K={K.hex()[:16]} script {j}: native {v!r}/{log} non-native {v2!r}/{log2}')
            if log and v is not True and j % 4 == 0:
                pass
    ctx.evaluations += max(n - 1, 0)


def size_case(ctx, size):
    """committed scripts whose length sits on both sides of every push-size boundary"""
    seed = ctx.seed
    ks = env.sym(seed, 'c5.K1')
    pub = refed.public_key(ks)
    head = committed_script(size % 256)
    want_log = [bytes([size % 256])]
    if size <= 3:
        # the smallest committed scripts there are (no recorder call fits)
        s = {1: op('TRUE'), 2: op('PUSH0') + b'\xff', 3: op('TRUE') + op('NOT') + op('NOT')}[size]
        want_log = []
    elif size < len(head) + 3:
        return
    else:
        pad = size - len(head) - 4 if size - len(head) - 4 >= 256 else size - len(head) - 3
        # head + PUSH(pad bytes) + POP0 has exactly `size` bytes
        filler = (b'\x04' + pad.to_bytes(2, 'big') if pad >= 256 else b'\x03' + bytes([pad])) + b'\x5a' * pad + op('POP0')
        s = head[:-1] + filler + op('TRUE')
    if len(s) != size:
        return
    ctx.state(('size', size))
    root, t = ref_root(pub, s)
    try:
        S = T.Script.from_bytes(s)
        lock = T.make_taproot_lock(pub, S).bytes
        nn = T.make_nonnative_taproot_lock(pub, S).bytes
        w = T.make_taproot_witness_scriptspend(pub, S).bytes
    except BaseException as e:
        ctx.violation({'clause': 'builders handle a committed script of this size', 'size': size if size in (255, 256, 257) else 'other'},
                      f'size {size}: {e!r}')
        return
    if lock != P(root) + op('TAPROOT') + b'\x00':
        ctx.violation({'clause': 'root = P + clamp(sha256(P || sha256(S))) * G'}, f'size {size}')
    # item-size limits of the embedder: generous, and exactly the largest item of the witness (the committed script itself)
    for name, lk, lim in [(nm, l_, lim_) for nm, l_ in (('native', lock), ('non-native', nn)) for lim_ in sorted({2048, max(size, 64), max(size, 64) + 1})]:
        rec = Recorder()
        try:
            v = F.run_auth_scripts([w, lk], {}, {CID: rec}, stack_max_item_size=lim)
        except BaseException as e:
            v = e
        ctx.ran()
        ctx.trans(3)
        if v is not True or rec.log != want_log:
            ctx.violation({'clause': 'script-spend witness made by the builder unlocks its lock', 'lock': name,
                           **({} if lim == 2048 else {'limit': 'item-size limit == script size' if lim == size else 'other item-size limit'})},
                          f'committed script of {size} bytes, stack_max_item_size={lim}: {v!r} {rec.log}')


# ---------------------------------------------------------------- (B) key path
def subset_case(ctx, which):
    """every subset of the eight sigfields x three flag patterns: the key-spend builder signs, and the key path
    accepts, exactly the message made of the present, non-excluded fields; a covered field that changes is refused"""
    seed = ctx.seed
    ks = env.sym(seed, 'c5.K0')
    pub = refed.public_key(ks)
    s = committed_script(7)
    root, t = ref_root(pub, s)
    sf = sigfields(seed, which)
    lock = T.make_taproot_lock(pub, T.Script.from_bytes(s), sigflags='ff').bytes
    n = 0
    for flag in (0x00, 0x55, 0xaa):
        n += 1
        ctx.state(('subset', which, flag))
        flhex = '%02x' % flag
        m = msg(sf, flag)
        try:
            w = T.make_taproot_witness_keyspend(ks, dict(sf), T.Script.from_bytes(s), sigflags=flhex).bytes
        except BaseException as e:
            ctx.violation({'clause': 'key-spend builder runs', 'flag': 'any', 'fields': 'sparse'}, f'fields {which} flag {flhex}: {e!r}')
            continue
        sig = w[2:2 + w[1]]
        if not refed.verify_strict(root, m, sig[:64]):
            ctx.violation({'clause': 'key-spend witness is a signature under the root over the flag-selected message', 'fields': 'sparse'},
                          f'fields {which} flag {flhex}: {sig.hex()}')
        v, log = run_auth([w, lock], sf)
        ctx.ran()
        ctx.trans(2)
        ctx.outcome('subset:%s' % v)
        if v is not True or log != []:
            ctx.violation({'clause': 'key path succeeds exactly with a valid signature and permitted flags', 'kind': 'rejects',
                           'fields': 'sparse'}, f'fields {which} flag {flhex}: {v!r} {log}')
        for i in which:
            covered = not flag >> (i - 1) & 1
            sf2 = dict(sf)
            sf2['sigfield%d' % i] = sf2['sigfield%d' % i][:-1] + bytes([sf2['sigfield%d' % i][-1] ^ 1])
            v2, _ = run_auth([w, lock], sf2)
            ctx.ran()
            if v2 is not (not covered):
                ctx.violation({'clause': 'key path succeeds exactly with a valid signature and permitted flags',
                               'kind': 'accepts' if v2 is True else 'rejects', 'fields': 'sparse'},
                              f'fields {which} flag {flhex}: sigfield{i} changed ({"covered" if covered else "excluded"}): {v2!r}')
    ctx.evaluations += n - 1


def _hashing_extension(tape, stack, cache):
    """a signature extension in the style of the repository's example: every present sigfield is replaced by its SHA-256"""
    for i in range(1, 9):
        k = 'sigfield%d' % i
        if k in cache and len(cache[k]) != 32:
            cache[k] = sha(bytes(cache[k]))


def extension_case(ctx, case):
    """with a signature extension active (registered globally or given to the run), the builders' key-spend and script-spend witnesses
    unlock the native lock and the non-native lock alike"""
    how, flag, which = case
    seed = ctx.seed
    ks = env.sym(seed, 'c5.K0')
    pub = refed.public_key(ks)
    s = committed_script(7)
    S = T.Script.from_bytes(s)
    sf = sigfields(seed, which)
    flhex = '%02x' % flag
    if how == 'registered':
        F.add_signature_extension(_hashing_extension)
        kw = {}
    else:
        kw = {'plugins': {'signature_extensions': [_hashing_extension]}}
    try:
        try:
            native = T.make_taproot_lock(pub, S, sigflags=flhex).bytes
            nn = T.make_nonnative_taproot_lock(pub, S, sigflags=flhex).bytes
            if how == 'registered':
                wk = T.make_taproot_witness_keyspend(ks, dict(sf), S, sigflags=flhex).bytes
            else:
                F.add_signature_extension(_hashing_extension)      # the builder signs through the registry
                try:
                    wk = T.make_taproot_witness_keyspend(ks, dict(sf), S, sigflags=flhex).bytes
                finally:
                    F.remove_signature_extension(_hashing_extension)
            ws = T.make_taproot_witness_scriptspend(pub, S).bytes
        except BaseException as e:
            ctx.violation({'clause': 'builders run', 'extension': how}, f'flag {flhex} fields {which}: {e!r}')
            return
        for wname, w in (('key spend', wk), ('script spend', ws)):
            res = {}
            for lname, lock in (('native', native), ('non-native', nn)):
                rec = Recorder()
                try:
                    res[lname] = F.run_auth_scripts([w, lock], dict(sf), {CID: rec}, **kw)
                except BaseException as e:
                    res[lname] = repr(e)
                ctx.ran()
                ctx.trans(2)
            ctx.state(('extension', how, flag, which, wname))
            ctx.outcome('ext:%s' % (res['native'],))
            want = True if wname == 'key spend' else (res['native'])
            if res['native'] is not want or res['non-native'] is not res['native']:
                ctx.violation({'clause': 'native and non-native locks agree', 'extension': how, 'witness': wname},
                              f'flag {flhex} fields {which} {wname}: native {res["native"]!r}, non-native {res["non-native"]!r}')
    finally:
        if how == 'registered':
            F.remove_signature_extension(_hashing_extension)


def key_case(ctx, case):
    k, which, part = case
    seed = ctx.seed
    ks = env.sym(seed, 'c5.K%d' % k)
    pub = refed.public_key(ks)
    s = committed_script(7)
    root, t = ref_root(pub, s)
    sf = sigfields(seed, which)
    a, _ = refed.secret_expand(ks)
    n = 0
    if part == 'flags':
        for flag in range(256):
            flhex = '%02x' % flag
            m = msg(sf, flag)
            # builder witness for every flag the builder accepts
            if flag != 0xff:
                try:
                    w = T.make_taproot_witness_keyspend(ks, dict(sf), T.Script.from_bytes(s), sigflags=flhex).bytes
                except BaseException as e:
                    ctx.violation({'clause': 'key-spend builder runs', 'flag': 'any'}, f'flag {flhex}: {e!r}')
                    continue
                sig = w[2:] if w[0] == 3 else w
                sig = w[2:2 + w[1]]
                if not refed.verify_strict(root, m, sig[:64]) or (len(sig) == 65) != (flag != 0) or (len(sig) == 65 and sig[64] != flag):
                    ctx.violation({'clause': 'key-spend witness is a signature under the root over the flag-selected message'},
                                  f'K{k} fields {which} flag {flhex}: {sig.hex()}')
            else:
                try:
                    T.make_taproot_witness_keyspend(ks, dict(sf), T.Script.from_bytes(s), sigflags='ff')
                    ctx.violation({'clause': 'key-spend builder refuses flag ff'}, 'accepted')
                except BaseException:
                    pass
                # the instruction itself has no such restriction: a hand-made signature under the root over the (empty)
                # message that flag ff selects, carrying flag byte ff
                xs = F.aggregate_scalars((F.derive_key_from_seed(ks), t))
                sig_ff = F.sign_with_scalar(xs, m)
                if not refed.verify_strict(root, m, sig_ff[:64]):
                    raise AssertionError('hand-made root signature does not verify')
                w = P(sig_ff[:64] + b'\xff')
            for allowed in sorted({0x00, 0xff, flag, flag ^ 0xff} | {flag & ~(1 << b) & 0xff for b in range(8) if flag >> b & 1}):
                n += 1
                lock = T.make_taproot_lock(pub, T.Script.from_bytes(s), sigflags='%02x' % allowed).bytes
                nn = T.make_nonnative_taproot_lock(pub, T.Script.from_bytes(s), sigflags='%02x' % allowed).bytes
                v, log = run_auth([w, lock], sf)
                v2, log2 = run_auth([w, nn], sf)
                ctx.ran(2)
                ctx.trans(4)
                ctx.state(('key', k, which, flag, allowed))
                want = (flag & ~allowed & 0xff) == 0
                ctx.outcome('key:%s' % v)
                if v is not want or log != []:
                    ctx.violation({'clause': 'key path succeeds exactly with a valid signature and permitted flags',
                                   'kind': 'accepts' if v is True else 'rejects'},
                                  f'K{k} fields {which} flag {flhex} allowed {allowed:02x}: {v!r} (want {want}) {log}')
                if v2 is not v:
                    ctx.violation({'clause': 'native == non-native', 'witness': 'key spend'},
                                  f'K{k} fields {which} flag {flhex} allowed {allowed:02x}: native {v!r} non-native {v2!r}')
    else:
        flag = 0
        m = msg(sf, flag)
        w = T.make_taproot_witness_keyspend(ks, dict(sf), T.Script.from_bytes(s)).bytes
        sig = w[2:2 + w[1]]
        lock = T.make_taproot_lock(pub, T.Script.from_bytes(s)).bytes
        nn = T.make_nonnative_taproot_lock(pub, T.Script.from_bytes(s)).bytes

        def expect(sig2, root2, what):
            nonlocal n
            n += 1
            lk = P(root2) + op('TAPROOT') + b'\x00'
            v, log = run_auth([P(sig2), lk], sf)
            ctx.ran()
            ctx.trans(2)
            ctx.state(('keycor', k, what))
            want = len(root2) == 32 and len(sig2) in (64, 65) and refed.verify_strict(root2, m, sig2[:64]) and \
                (len(sig2) == 64 or sig2[64] == 0)
            if v is not bool(want) or log != []:
                ctx.violation({'clause': 'key path succeeds exactly with a valid signature and permitted flags',
                               'kind': 'accepts' if v is True else 'rejects', 'corruption': what.split(':')[0]},
                              f'K{k} {what}: {v!r} want {want}')
        expect(sig, root, 'honest')
        for bit in range(512):
            expect(flip(sig, bit), root, 'signature bit:%d' % bit)
        for bit in range(256):
            expect(sig, flip(root, bit), 'root bit:%d' % bit)
        # signature under the internal key instead of the root
        expect(refed.sign(ks, m), root, 'signed by the internal key')
        expect(sig[:63], root, 'short signature')
        expect(sig + b'\x00\x00', root, 'long signature')
    ctx.evaluations += max(n - 1, 0)


# ---------------------------------------------------------------- (C) script path corruptions
def script_case(ctx, k):
    seed = ctx.seed
    ks = env.sym(seed, 'c5.K%d' % k)
    pub = refed.public_key(ks)
    others = [refed.public_key(env.sym(seed, 'c5.K%d' % j)) for j in range(4) if j != k]
    s = committed_script(3)
    root, t = ref_root(pub, s)
    lock = T.make_taproot_lock(pub, T.Script.from_bytes(s)).bytes
    nn = T.make_nonnative_taproot_lock(pub, T.Script.from_bytes(s)).bytes
    n = 0

    def expect_reject(script2, pub2, what, lk=lock, nlk=nn):
        nonlocal n
        n += 1
        w = P(script2) + P(pub2)
        v, log = run_auth([w, lk])
        ctx.ran()
        ctx.trans(2)
        ctx.state(('scr', k, what))
        ctx.outcome('scr:%s' % v)
        if v is not False or log != []:
            ctx.violation({'clause': 'a (script, key) pair that does not recompute to the root must not run', 'corruption': what.split(':')[0]},
                          f'K{k} {what}: verdict {v!r} recorder {log}')
        if nlk is not None:
            v2, log2 = run_auth([w, nlk])
            ctx.ran()
            if v2 is not v or log2 != log:
                ctx.violation({'clause': 'native == non-native', 'witness': 'corrupted script spend'}, f'K{k} {what}: {v!r}/{log} vs {v2!r}/{log2}')

    v, log = run_auth([P(s) + P(pub), lock])
    if v is not True or log != [b'\x03']:
        ctx.violation({'clause': 'honest script path runs the committed script'}, f'K{k}: {v!r} {log}')
    for b in range(len(s)):
        for bit in (0, 7):
            expect_reject(s[:b] + bytes([s[b] ^ (1 << bit)]) + s[b + 1:], pub, 'script byte:%d.%d' % (b, bit))
    for b in range(32):
        for bit in (0, 7) if b in (0, 31) else (0,):
            expect_reject(s, pub[:b] + bytes([pub[b] ^ (1 << bit)]) + pub[b + 1:], 'key byte:%d.%d' % (b, bit))
    for o in others:
        expect_reject(s, o, 'other key')
    for j in (4, 5, 250):
        expect_reject(committed_script(j), pub, 'other script:%d' % j)
    for b in (0, 13, 31):
        r2 = root[:b] + bytes([root[b] ^ 1]) + root[b + 1:]
        expect_reject(s, pub, 'root byte:%d' % b, lk=P(r2) + op('TAPROOT') + b'\x00', nlk=None)
    # point-subtraction attack: choose S', present P' = root - clamp(sha256(P' || sha256(S')))*G is circular; the classic
    # attempt uses the tweak derived from the honest key: P' = root - clamp(sha256(P || sha256(S')))*G
    for j in (9, 10, 11):
        s2 = committed_script(j)
        t2 = refed.clamp_scalar(sha(pub + sha(s2)))
        fake = refed.sub_enc(root, refed.scalarmult_base_noclamp(t2))
        expect_reject(s2, fake, 'point subtraction:%d' % j)
    expect_reject(b'', pub, 'empty script')
    ctx.evaluations += n - 1


# ---------------------------------------------------------------- (E) native == non-native on the adversarial witness family
def equiv_case(ctx, w):
    seed = ctx.seed
    ks = env.sym(seed, 'c5.K0')
    pub = refed.public_key(ks)
    s = committed_script(1)
    wb = spaces.render(w)
    lock = T.make_taproot_lock(pub, T.Script.from_bytes(s)).bytes
    nn = T.make_nonnative_taproot_lock(pub, T.Script.from_bytes(s)).bytes
    sf = sigfields(seed, (1, 2))
    tails = [b'', P(s) + P(pub), T.make_taproot_witness_keyspend(ks, dict(sf), T.Script.from_bytes(s)).bytes,
             P(committed_script(2)) + P(pub)]
    n = 0
    for ti, tail in enumerate(tails):
        n += 1
        v, log = run_auth([wb + tail, lock], sf)
        v2, log2 = run_auth([wb + tail, nn], sf)
        ctx.ran(2)
        ctx.trans(2)
        ctx.state(('eq', wb, ti))
        ctx.outcome('eq:%s' % v)
        if v is not v2 or log != log2:
            # the non-native lock defines function 0, spends one CALL and one EVAL: excluded when the witness
            # itself interferes with those resources (redefines 0 after..., uses up the call budget)
            rv, e = ref_auth([wb + tail, lock], ro=sf, contracts={CID: Recorder()})
            if 'SPEND' in repr(w) or 'CALL' in repr(w):
                # the statement only exempts witnesses that use up call budget (the non-native lock spends one CALL and one EVAL)
                ctx.unspec('witness spends call budget')
                continue
            ctx.violation({'clause': 'native == non-native', 'witness': 'adversarial family'},
                          f'witness {w!r} tail {ti}: native {v!r}/{log} non-native {v2!r}/{log2}')
    ctx.evaluations += n - 1


def mismatch_flags_case(ctx, fl):
    """a (script, key) pair that does not recompute to the root, against a lock carrying every possible sigflags byte (the
    byte that follows the instruction), with nothing / true / false underneath the pair: never authorizes, never runs the script"""
    seed = ctx.seed
    pub = refed.public_key(env.sym(seed, 'c5.K0'))
    other = refed.public_key(env.sym(seed, 'c5.K1'))
    s_ok, s_bad = committed_script(1), committed_script(2)
    root, _ = ref_root(pub, s_ok)
    lock = P(root) + op('TAPROOT') + bytes([fl])
    n = 0
    for under in (b'', op('TRUE'), op('FALSE'), op('TRUE') + op('TRUE')):
        for what, w in (('wrong script', P(s_bad) + P(pub)), ('wrong key', P(s_ok) + P(other)), ('both wrong', P(s_bad) + P(other))):
            n += 1
            v, log = run_auth([under + w, lock])
            ctx.ran()
            ctx.trans(2)
            ctx.state(('mismatch', fl, under, what))
            ctx.outcome('mismatch:%s' % v)
            if v is not False or log != []:
                ctx.violation({'clause': 'a pair that does not recompute to the root is refused and its script does not run',
                               'corruption': what, 'kind': 'accepts' if v is True else 'other'},
                              f'sigflags byte {fl:02x}, {what}, {len(under)} item(s) underneath: {v!r} recorder {log}')
    ctx.evaluations += n - 1


def budget_case(ctx, case):
    """call-budget boundary: the witness first spends s top-level calls under a call-stack limit L. Each lock needs the
    nesting depth of its own CALL / EVAL instructions on the path taken (measured under a large limit); with at least
    that much left it gives its normal verdict, native and non-native alike"""
    from mc import monitor
    L, path = case
    seed = ctx.seed
    ks = env.sym(seed, 'c5.K0')
    pub = refed.public_key(ks)
    sc = op('TRUE') + op('NOT') + op('NOT')      # no contract call: the monitor run has no contracts
    sf = sigfields(seed, (1, 2))
    S = T.Script.from_bytes(sc)
    tail = T.make_taproot_witness_scriptspend(pub, S).bytes if path == 'script' else T.make_taproot_witness_keyspend(ks, dict(sf), S).bytes
    locks = {'native': T.make_taproot_lock(pub, S).bytes, 'non-native': T.make_nonnative_taproot_lock(pub, S).bytes}
    n = 0
    for name, lk in locks.items():
        mon, base = monitor.run_monitored_auth([tail, lk], (1024, 1024, 128), cache=dict(sf))
        # whatever the bookkeeping inside bodies is, it charges at least the nesting depth and at most one unit per executed
        # CALL / EVAL instruction: below the first the lock must fail, from the second on it must give its normal verdict
        need_lo, need_hi = mon.max_depth, mon.calls_executed
        if base is not True:
            ctx.violation({'clause': 'builder witness unlocks its lock', 'lock': name, 'block': 'call budget'}, f'{path}: {base!r}')
            continue
        for spent in range(0, L + 1):
            n += 1
            w = op('DEF') + b'\x7f' + b'\x00\x00' + (op('CALL') + b'\x7f') * spent + tail
            try:
                v = F.run_auth_scripts([w, lk], dict(sf), callstack_limit=L)
            except BaseException as e:
                v = e
            ctx.ran()
            ctx.trans(2)
            ctx.state(('budget', L, path, name, spent))
            ctx.outcome('budget:%s' % v)
            left = L - spent
            want = True if left >= need_hi else False if left < need_lo else None
            if want is None:
                ctx.unspec('call budget between nesting depth and executed calls')
            elif v is not want:
                ctx.violation({'clause': 'verdict at the call-budget boundary', 'lock': name, 'path': path,
                               'kind': 'accepts' if v is True else 'rejects'},
                              f'{name} lock, {path} path, limit {L}, witness spent {spent}; the lock nests {need_lo} deep and executes '
                              f'{need_hi} CALL/EVAL: {v!r}, expected {want}')
    ctx.evaluations += max(n - 1, 0)


def blocks(tier, seed):
    q = tier == 'quick'
    nk = 4 if q else 16
    fieldsets = [(1,), (1, 2), (2, 8), (1, 2, 3, 8)] if q else [(1,), (1, 2), (2, 8), (1, 2, 3, 8), (8,), tuple(range(1, 9))]
    keycases = [(k, fs, 'flags') for k in range(2 if q else 4) for fs in fieldsets] + \
        [(k, (1, 2), 'corrupt') for k in range(1 if q else 3)]
    return [
        Block('A_root_identity_and_builders', list(range(nk)), root_case,
              'seeds x scripts covering all 32 clamp-bit patterns: lock bytes, script-spend witness, non-native', nshards=nk),
        Block('A_committed_script_sizes', [1, 2, 3, 40, 100, 127, 128, 129, 254, 255, 256, 257, 258, 511, 512, 1000, 1023, 1024, 1500], size_case,
              'committed script lengths on both sides of 2^7, 2^8, 2^9, 2^10', nshards=16),
        Block('B_key_path', keycases, key_case, 'all flag values x allowed masks {00, ff, flag, ~flag, flag minus each one of its bits} x sigfield sets; all signature / root bit flips',
              nshards=len(keycases)),
        Block('B2_sigfield_subsets', [tuple(i + 1 for i in range(8) if b >> i & 1) for b in range(256)], subset_case,
              'all 256 subsets of the eight sigfields x flags {00, 55, aa}: builder signature, key-path verdict, every present field changed',
              nshards=64),
        Block('F_signature_extension_active', [(h, fl, w) for h in ('registered', 'given to the run') for fl in (0x00, 0x01, 0x02, 0x80, 0x7e)
                                               for w in ((1,), (1, 2), (2, 8), (1, 2, 3, 4, 5, 6, 7, 8))], extension_case,
              'hashing signature extension registered / given to the run x 5 flags x 4 sigfield sets: builder witnesses against both locks', nshards=20),
        Block('C2_mismatch_x_flag_bytes', list(range(256)), mismatch_flags_case,
              'all 256 sigflags bytes x wrong script / wrong key / both x {nothing, true, false, two items} underneath', nshards=64),
        Block('E3_call_budget_boundary', [(L, p) for L in (1, 2, 3, 5, 16) for p in ('script', 'key')], budget_case,
              'call-stack limit L x witness spending 0..L top-level calls x script / key path x native / non-native', nshards=10),
        Block('E2_small_order_key_components', list(range(len(SMALL_ORDER))), torsion_case,
              'internal key P + T and T for all 7 non-trivial small-order points T, hand-made roots: native vs non-native', nshards=7),
        Block('C_script_path_corruptions', list(range(4 if q else 8)), script_case,
              'every byte of script and key flipped, other keys/scripts, root flips, point-subtraction attack', nshards=8),
        Block('E_native_vs_nonnative', lambda s, n: spaces.progs_upto(2 if q else 3, 'wit', s, n), equiv_case,
              'adversarial witness family (C01) x {nothing, script spend, key spend, wrong script} against both locks', nshards=64),
    ]


def meta(tier, seed):
    assert refed.selftest()
    q = tier == 'quick'
    return dict(
        rule='products seeds x scripts x flags x masks x corruptions through run_auth_scripts; algebra re-derived with ref.refed; recording '
             'contract as first instruction of every committed script',
        states_meaning='distinct (seed, script/flag/mask/corruption) cases; transitions = scripts run',
        bounds={'seeds': 4 if q else 16, 'witness_nodes': 2 if q else 3},
        assumptions=['SHA-256 / Ed25519 hardness for the rejection direction',
                     'native vs non-native: witnesses that spend call budget are excluded (counted as unspecified); witnesses that define function 0 are in scope'],
    )
