"""C18 - anonymous multi-hop locks: consistent setup and right-to-left release cascade.

Setup: for every (seed, chain length n, hop i) the tweak point of hop i is re-derived with
reference Ed25519 arithmetic, every party's view passes check_setup and a substituted view fails.
Release: explicit-state search over coalition knowledge - a state is the set of hops already
opened; a transition tries to open hop i with the scalar obtained by applying
release_left_amhl_lock to an opened hop j's adapter witness / decrypted signature and a scalar y of
the alphabet (every pair (i, j), every y, plus the final key and scalars of a second chain),
executed on the real builders; BFS to a fixpoint, judged by the AMHL model.
"""
import hashlib
import itertools

from mc import env
from mc.run import Block
from ref import refed
from ref.optable import op, push

F, T = env.functions, env.tools
AMHL = env.tapescript.AMHL.AMHL if hasattr(env.tapescript, 'AMHL') else None
L = refed.L


def P(b):
    return push(b) if len(b) else b'\x03\x00'


def amhl():
    import tapescript.AMHL as m
    return m.AMHL


def ref_samples(seed, n):
    """y_i = clamp(sha256(seed || i)) as documented by AMHL.sample; Y_i = sum_{j<=i} y_j * G"""
    ys = [refed.clamp_scalar(hashlib.sha256(seed + i.to_bytes(8, 'big')).digest()) for i in range(n)]
    Ys, acc = [], 0
    for y in ys:
        acc = (acc + (int.from_bytes(y, 'little') & ((1 << 255) - 1))) % L
        Ys.append(refed.base_mul_enc(acc))
    return ys, Ys


def chain_seed(seed, sname):
    """16-byte seeds, plus seeds longer than a hash block input of 32 bytes that share their first 32 bytes"""
    if sname.startswith('Z'):          # seeds made of zero bytes only (1, 16, 32 bytes), and one that merely begins with zeros
        return {'Z1': b'\x00', 'Z16': bytes(16), 'Z32': bytes(32), 'Z31+1': bytes(31) + b'\x01'}[sname]
    if sname.startswith('L'):
        return env.sym(seed, 'c18.seed.long', 32) + {'L33a': b'a', 'L33b': b'b', 'L64': env.sym(seed, 'c18.seed.tail', 32)}[sname]
    return env.sym(seed, 'c18.seed.' + sname, 16)


def party_keys(seed, n, tag='p'):
    sk = [env.sym(seed, 'c18.%s%d' % (tag, i)) for i in range(n)]
    return sk, [refed.public_key(s) for s in sk]


def setup_case(ctx, case):
    sname, n = case
    seed = ctx.seed
    aseed = chain_seed(seed, sname)
    A = amhl()
    sk, pk = party_keys(seed, n)
    ys, Ys = ref_samples(aseed, n)
    # call history inside the case (so that it replays): the same seed was used for a longer and for a shorter chain
    # before; nothing of those calls may be remembered
    sk_l, pk_l = party_keys(seed, n + 2, 'h')
    try:
        T.setup_amhl(aseed, list(pk_l))
        A.setup(n + 3, aseed)
        T.setup_amhl(aseed, list(pk_l[:max(n - 1, 2)]))
        res = T.setup_amhl(aseed, list(pk))
    except BaseException as e:
        if n == 1:
            ctx.unspec('single-party chain refused')
        else:
            ctx.violation({'clause': 'setup_amhl builds a chain for n parties', 'how': 'raises'}, f'seed {sname} n={n}: {e!r}')
        return
    ctx.ran(3)
    cnt = 0
    raw = A.setup(n, aseed)
    if len(raw) != 2 or len(raw[0]) != n or len(raw[1]) != n:
        ctx.violation({'clause': 'setup returns one secret and one point per party'}, f'seed {sname} n={n}: {[len(x) for x in raw]}')
    for i in range(n):
        cnt += 1
        ctx.state(('setup', sname, n, i))
        entry = res[pk[i]]
        if entry[2] != Ys[i]:
            ctx.violation({'clause': 'hop i tweak point = sum of the points of secrets 0..i'}, f'seed {sname} n={n} hop {i}')
        if entry[3] != ys[i]:
            ctx.violation({'clause': 'hop i partial secret = sample i'}, f'seed {sname} n={n} hop {i}')
        view = A.setup_for(raw, i)
        ctx.trans()
        want_view = (ys[0],) if i == 0 else (Ys[i - 1], Ys[i], ys[i])
        if tuple(view) != want_view:
            ctx.violation({'clause': 'party view = (left lock point, right lock point, own secret)'}, f'seed {sname} n={n} party {i}')
        if not A.check_setup(view, i, n):
            ctx.violation({'clause': 'every party\'s own view passes setup validation'}, f'seed {sname} n={n} party {i}')
        # another party's view substituted in must fail (intermediate parties)
        for j in range(1, n):
            if j != i and 0 < i < n:
                other = A.setup_for(raw, j)
                mixed = (other[0], view[1], view[2])
                if A.check_setup(mixed, i, n) and other[0] != view[0]:
                    ctx.violation({'clause': 'a substituted view fails setup validation'}, f'seed {sname} n={n} party {i} with left point of {j}')
                mixed2 = (view[0], view[1], other[2])
                if A.check_setup(mixed2, i, n) and other[2] != view[2]:
                    ctx.violation({'clause': 'a substituted view fails setup validation'}, f'seed {sname} n={n} party {i} with secret of {j}')
    final = A.setup_for(raw, n)
    if not A.check_setup(final, n, n):
        ctx.violation({'clause': 'every party\'s own view passes setup validation'}, f'seed {sname} n={n} receiver view')
    try:
        ok_final = final[0][0] == Ys[n - 1] and A.verify_lock_key(final[0][0], final[1])
    except BaseException:
        ok_final = False
    if not ok_final:
        ctx.violation({'clause': 'the final key opens the last lock', 'where': 'receiver view'}, f'seed {sname} n={n}')
    key = res['key']
    want_key = sum(int.from_bytes(y, 'little') & ((1 << 255) - 1) for y in ys) % L
    if int.from_bytes(key, 'little') % L != want_key:
        ctx.violation({'clause': 'final key = sum of all secrets'}, f'seed {sname} n={n}')
    if not A.verify_lock_key(Ys[n - 1], key):
        ctx.violation({'clause': 'the final key opens the last lock'}, f'seed {sname} n={n}')
    for i in range(n - 1):
        if A.verify_lock_key(Ys[i], key):
            ctx.violation({'clause': 'the final key opens only the last lock'}, f'seed {sname} n={n} hop {i}')
    # key forms: public keys as PyNaCl VerifyKey objects (refund table keyed by bytes, and by objects) give the same chain
    if sname == 's0' and n >= 2:
        import nacl.signing
        rsk, rpk = party_keys(seed, n, 'r')
        refund_b = {pk[i]: rpk[i] for i in range(0, n, 2)}
        base = T.setup_amhl(aseed, list(pk), refund_pubkeys=dict(refund_b))
        objs = [nacl.signing.VerifyKey(k) for k in pk]
        for form, keys_, refund_ in (('tuple of bytes keys', tuple(pk), dict(refund_b)),
                                     ('VerifyKey hops, bytes-keyed refunds', objs, dict(refund_b)),
                                     ('VerifyKey hops and refund values', objs, {k: nacl.signing.VerifyKey(v) for k, v in refund_b.items()})):
            try:
                given = keys_ if type(keys_) is tuple else list(keys_)
                before = list(given)
                alt = T.setup_amhl(aseed, given, refund_pubkeys=refund_)
                if len(given) != len(before) or any(a is not b for a, b in zip(given, before)):
                    ctx.violation({'clause': 'setup_amhl leaves the caller\'s key container as it was'}, f'seed {sname} n={n} {form}')
                same = alt['key'] == base['key'] and all(
                    tuple(getattr(x, 'bytes', x) for x in alt[pk[i]]) == tuple(getattr(x, 'bytes', x) for x in base[pk[i]]) for i in range(n))
            except BaseException as e:
                same = repr(e)
            ctx.ran()
            if same is not True:
                ctx.violation({'clause': 'setup_amhl accepts keys as bytes or key objects', 'form': form.split(',')[0]},
                              f'seed {sname} n={n} {form}: {same}')
    # no seed at all: every call draws its own, so two unseeded setups are two different chains, each consistent in itself
    if sname == 's0':
        env.Rand.reset(b'c18-unseeded')
        u1, u2 = A.setup(n), A.setup(n)
        ctx.ran(2)
        if u1[0] == u2[0] or u1[1][-1] == u2[1][-1]:
            ctx.violation({'clause': 'unseeded setups are independent chains'}, f'n={n}: two calls of AMHL.setup(n) returned the same secrets')
        for u in (u1, u2):
            acc = None
            for i in range(n):
                pt = refed.scalarmult_base_noclamp(u[0][i])
                acc = pt if acc is None else refed.add_enc(acc, pt)
                if u[1][i] != acc:
                    ctx.violation({'clause': 'hop i tweak point = sum of the points of secrets 0..i', 'seed': 'none'}, f'unseeded n={n} hop {i}')
    # the empty seed makes the library draw a random one: the result must still be one consistent chain
    # (the values of a single result are related to each other, whatever was drawn; two calls, two chains)
    if sname == 's0':
        for call in (1, 2):
            cnt += 1
            env.Rand.reset(b'c18-empty-seed-%d' % call)
            r0 = T.setup_amhl(b'', list(pk))
            ctx.ran()
            ys0 = [r0[pk[i]][3] for i in range(n)]
            acc = None
            for i in range(n):
                pt = refed.scalarmult_base_noclamp(ys0[i])
                acc = pt if acc is None else refed.add_enc(acc, pt)
                if r0[pk[i]][2] != acc:
                    ctx.violation({'clause': 'hop i tweak point = sum of the points of secrets 0..i', 'seed': 'empty'},
                                  f'empty seed n={n} hop {i}')
            k0 = sum(int.from_bytes(y, 'little') & ((1 << 255) - 1) for y in ys0) % L
            if int.from_bytes(r0['key'], 'little') % L != k0:
                ctx.violation({'clause': 'final key = sum of all secrets', 'seed': 'empty'}, f'empty seed n={n} (call {call})')
            if not A.verify_lock_key(r0[pk[n - 1]][2], r0['key']):
                ctx.violation({'clause': 'the final key opens the last lock', 'seed': 'empty'}, f'empty seed n={n} (call {call})')
    ctx.evaluations += cnt - 1


def release_case(ctx, case):
    sname, n, refunds, flags = case
    seed = ctx.seed
    env.Clock.now = 1_700_000_000
    aseed = chain_seed(seed, sname)
    sk, pk = party_keys(seed, n)
    rsk, rpk = party_keys(seed, n, 'r')
    ys, Ys = ref_samples(aseed, n)
    ys2, _ = ref_samples(env.sym(seed, 'c18.other-chain', 16), 3)
    refund = {pk[i]: rpk[i] for i in range(n) if refunds and i % 2 == 0} if refunds else None
    try:
        res = T.setup_amhl(aseed, list(pk), sigflags=flags, refund_pubkeys=refund)
    except BaseException as e:
        if n == 1:
            ctx.unspec('single-party chain refused')
        else:
            ctx.violation({'clause': 'setup_amhl builds a chain for n parties', 'how': 'raises'}, f'seed {sname} n={n}: {e!r}')
        return
    ctx.ran()
    fl = int(flags, 16)
    # per-hop sigfields: distinct contents, and the field set rotates over all eight sigfields
    sfs = [{'sigfield%d' % (1 + (i + k) % 8): env.sym(seed, 'c18.hop%d.f%d' % (i, k), 4 + k) for k in (0, 3, 7)} for i in range(n)]
    if sname == 's1':
        # hops whose only sigfield is present but empty
        for i in range(1, n, 2):
            sfs[i] = {'sigfield%d' % (1 + i % 8): b''}
    # history: the same parties signed an earlier payment over the same chain - same keys, tweak points, flags and field
    # names, other field contents; those witnesses bind the earlier contents only and leave nothing behind for the later ones
    old = [{k: v + b'-earlier' for k, v in f.items()} for f in sfs]
    try:
        for i in range(n):
            w0 = T.make_adapter_witness(sk[i], res[pk[i]][2], dict(old[i]), flags)
            for which, fields_, want in (('its own', old[i], True), ('the later', sfs[i], False)):
                covered = any(not (fl0 >> (int(k[-1]) - 1)) & 1 for k in fields_) if (fl0 := int(flags, 16)) else True
                got = F.run_auth_scripts([w0.bytes, res[pk[i]][0].bytes], dict(fields_))
                ctx.ran()
                if got is not (want or not covered):
                    ctx.violation({'clause': 'adapter witness of an earlier payment is bound to exactly its own sigfield contents',
                                   'fields': which}, f'seed {sname} n={n} flags={flags} hop {i}: {got!r}')
    except BaseException as e:
        ctx.violation({'clause': 'every hop gets an adapter witness', 'how': 'raises', 'when': 'earlier payment'}, f'seed {sname} n={n} flags={flags}: {e!r}')
        return
    try:
        wits = [T.make_adapter_witness(sk[i], res[pk[i]][2], dict(sfs[i]), flags) for i in range(n)]
    except BaseException as e:
        ctx.violation({'clause': 'every hop gets an adapter witness', 'how': 'raises'}, f'seed {sname} n={n} flags={flags}: {e!r}')
        return
    prefix = [sum(int.from_bytes(y, 'little') & ((1 << 255) - 1) for y in ys[:i + 1]) % L for i in range(n)]
    # every adapter witness passes its hop's adapter-check script
    for i in range(n):
        if not F.run_auth_scripts([wits[i].bytes, res[pk[i]][0].bytes], dict(sfs[i])):
            ctx.violation({'clause': 'adapter witness passes the hop\'s check script'}, f'seed {sname} n={n} hop {i}')
        ctx.ran()

    def try_open(i, scalar):
        """decrypt hop i's adapter with `scalar`; does the result satisfy hop i's lock?"""
        try:
            sig = T.decrypt_adapter(wits[i], scalar)
        except BaseException:
            return False, None
        item = sig + (bytes([fl]) if fl else b'')
        lock2 = res[pk[i]][1].bytes
        w = P(item) + (op('TRUE') if refund and pk[i] in refund else b'')
        ok = F.run_auth_scripts([w, lock2], dict(sfs[i]))
        ctx.ran(2)
        ctx.trans()
        return ok is True, sig

    def judge(i, scalar, origin):
        ok, sig = try_open(i, scalar)
        want = int.from_bytes(scalar, 'little') % L == prefix[i] and len(scalar) == 32
        ctx.outcome('open:%s' % ok)
        if ok is not want:
            ctx.violation({'clause': 'hop opens exactly with the scalar sum of secrets 0..i',
                           'kind': 'opens' if ok else 'does not open'},
                          f'seed {sname} n={n} refunds={bool(refunds)} flags={flags} hop {i} scalar from {origin}: opened={ok}, model {want}')
        return ok, sig

    # BFS over the set of opened hops
    key = res['key']
    opened = {}            # hop -> decrypted signature
    seen = {frozenset()}
    frontier = [frozenset()]
    cnt = 0
    # the final key against every hop
    for i in range(n):
        cnt += 1
        ok, sig = judge(i, key, 'final key')
        if ok:
            opened[i] = sig
    state = frozenset(opened)
    seen.add(state)
    frontier = [state]
    yalpha = [('y%d' % k, ys[k]) for k in range(n)] + [('other-chain y%d' % k, ys2[k]) for k in range(2)]
    while frontier:
        nxt = []
        for st in frontier:
            ctx.state(('rel', sname, n, bool(refunds), flags, tuple(sorted(st))))
            for j in sorted(st):
                for yname, y in yalpha:
                    try:
                        scalar = T.release_left_amhl_lock(wits[j], opened[j][:64], y)
                    except BaseException as e:
                        ctx.violation({'clause': 'release_left_amhl_lock runs on an adapter witness and its decrypted signature'},
                                      f'seed {sname} n={n} hop {j}: {e!r}')
                        continue
                    ctx.ran()
                    # recovered scalar equals the model's value
                    want_scalar = (prefix[j] - (int.from_bytes(y, 'little') & ((1 << 255) - 1))) % L
                    if int.from_bytes(scalar, 'little') % L != want_scalar:
                        ctx.violation({'clause': 'released scalar = (s - sa) - y'}, f'seed {sname} n={n} hop {j} with {yname}')
                    if yname == 'y0':
                        # other forms the decrypted signature circulates in (with its flag byte, as the lock takes it; cut short;
                        # over-long): the release function refuses them or recovers the same scalar - never another one
                        s64 = opened[j][:64]
                        for form, sg in (('with flag byte', s64 + bytes.fromhex(flags)), ('63 bytes', s64[:63]), ('66 bytes', s64 + b'\x00\x00'),
                                         ('with another flag byte', s64 + b'\x5a')):
                            try:
                                sc2 = T.release_left_amhl_lock(wits[j], sg, y)
                            except BaseException:
                                ctx.outcome('release form refused')
                                continue
                            ctx.ran()
                            ctx.outcome('release form accepted')
                            if type(sc2) is not bytes or int.from_bytes(sc2, 'little') % L != want_scalar:
                                ctx.violation({'clause': 'released scalar = (s - sa) - y', 'signature form': form},
                                              f'seed {sname} n={n} hop {j}: signature given {form} silently yields another scalar')
                    for i in range(n):
                        if i in st and i != j - 1:
                            continue
                        cnt += 1
                        ok, sig = judge(i, scalar, 'hop %d with %s' % (j, yname))
                        if ok and i not in opened:
                            opened[i] = sig
                            ns = frozenset(st | {i})
                            if ns not in seen:
                                seen.add(ns)
                                nxt.append(ns)
        frontier = nxt
    if set(opened) != set(range(n)):
        ctx.violation({'clause': 'the cascade releases every hop from right to left'}, f'seed {sname} n={n}: opened {sorted(opened)}')
    # only right-to-left: the states reached are exactly the suffixes
    for st in seen:
        if st and sorted(st) != list(range(min(st), n)):
            ctx.violation({'clause': 'only right-to-left release orders succeed'}, f'seed {sname} n={n}: reached {sorted(st)}')
    ctx.count('release states', len(seen))
    ctx.evaluations += max(cnt - 1, 0)


def blocks(tier, seed):
    q = tier == 'quick'
    nmax = 8 if q else 13
    seeds_ = ('s0', 's1', 's2') if q else ('s0', 's1', 's2', 's3', 's4')
    sc = [(s, n) for s in seeds_ for n in range(1, nmax + 1)] + [(s, n) for s in ('L33a', 'L33b', 'L64', 'Z1', 'Z16', 'Z32', 'Z31+1') for n in (2, 3, 5)]
    rc = [(s, n, r, f) for s in seeds_ for n in range(1, nmax + 1) for r in (False, True)
          for f in ('00', '01')]
    rc += [('s0', n, r, f) for n in (2, 3) for r in (False, True) for f in ('02', '08', '20', '40', '80', 'a5', 'fe')]
    return [
        Block('setup_consistency', sc, setup_case, 'seeds x chain lengths 2..%d x every hop / party view' % nmax, nshards=len(sc)),
        Block('release_cascade_search', rc, release_case,
              'BFS over opened-hop sets: every (target hop, opened hop, y) triple incl. second-chain scalars and the final key on every hop; '
              'chains 2..%d, with/without refund keys, flags' % nmax, nshards=len(rc), backstop=3600),
    ]


def meta(tier, seed):
    assert refed.selftest()
    q = tier == 'quick'
    return dict(
        rule='setup re-derived with reference arithmetic; release: explicit-state search to a fixpoint over sets of opened hops where '
             'every transition runs release_left_amhl_lock / decrypt_adapter / run_auth_scripts on the real builders',
        states_meaning='distinct (seed, n, options, set of opened hops) states and setup views; transitions = open attempts',
        bounds={'chain_length': 8 if q else 13, 'seeds': 3 if q else 5},
        assumptions=['discrete-log hardness for "a scalar from another hop or chain does not open"',
                     'scalars compared modulo L'],
    )
