"""C02 - signature instructions verify exactly the flag-selected message.

Signer and checker are judged independently: honest signatures are produced by
the RFC 8032 reference (ref.refed), never by OP_SIGN, and OP_SIGN's output is
compared byte-for-byte with the reference signature.
"""
from mc import env
from mc.run import Block, sharded_first
from mc.vm import run, TRUE, FALSE
from ref import refed
from ref.optable import op, push

NAMES = ['sigfield%d' % i for i in range(1, 9)]


def fields_for(seed, variant=0):
    """eight pairwise distinct, non-empty field contents of different lengths"""
    return [env.sym(seed, 'field%d.%d' % (i, variant), 2 + ((i * 5 + variant) % 11)) for i in range(8)]


def msg(fields, presence, flag):
    """reference message: present fields whose flag bit is clear, in index order"""
    return b''.join(fields[i] for i in range(8) if presence >> i & 1 and not flag >> i & 1)


def cache_for(fields, presence, order=0):
    """order 0: ascending insertion; 1: descending; 2: rotated and interleaved with unrelated embedder keys
    (the message order is the field index order whatever order the embedder filled the dict in)"""
    idx = [i for i in range(8) if presence >> i & 1]
    if order == 1:
        idx = idx[::-1]
    elif order == 2:
        idx = idx[len(idx) // 2:] + idx[:len(idx) // 2]
        # unrelated embedder keys, some spelled almost like a sigfield: none of them is part of any message
        out = {'zeta': b'z', 'sigfield9': b'nine', 'sigfield0': b'zero', 'sigfield10': b'ten', 'sigfield': b'bare', 'SIGFIELD1': b'upper',
               b'sigfield1': [b'bytes key'], 'sigfield1 ': b'space'}
        for i in idx:
            out[NAMES[i]] = fields[i]
            out['other%d' % i] = b'o'
        return out
    return {NAMES[i]: fields[i] for i in idx}


def keyseed(seed, k):
    return env.sym(seed, 'K%d' % k)


def sigbytes(sig64, flag, explicit_zero=False):
    return sig64 + (bytes([flag]) if flag or explicit_zero else b'')


def judge_check(ctx, what, raised, stack, expect, sig):
    """expect in {'true','false','raise','nottrue'}"""
    got = 'raise' if raised is not None else ('true' if stack == [TRUE] else
                                               'false' if stack == [FALSE] else 'other:%r' % (stack,))
    ctx.outcome(what + ':' + got[:5])
    ok = (got == expect) or (expect == 'nottrue' and got in ('false', 'raise')) \
        or (expect == 'false' and got == 'false')
    if not ok:
        ctx.violation({**sig, 'expected': expect, 'got': got[:5]},
                      f'{what}: expected {expect}, got {got} ({raised!r})')
    return ok


# ---------------------------------------------------------------- block A
def blockA(ctx, case):
    flag, alloweds = case[0], case[1]
    seed = ctx.seed
    fields = fields_for(seed)
    ks = keyseed(seed, case[2] if len(case) > 2 else 0)
    pk = refed.public_key(ks)
    cache = cache_for(fields, 0xff)
    honest = refed.sign(ks, msg(fields, 0xff, flag))
    for allowed in alloweds:
        ctx.evaluations += 1
        ctx.state(('A', flag, allowed))
        permitted = (flag & ~allowed) == 0
        # honest presentation (plus explicit 00 flag byte form when flag == 0)
        for ez in ((False, True) if flag == 0 else (False,)):
            s = sigbytes(honest, flag, ez)
            r, st, _ = run(push(s) + push(pk) + op('CHECK_SIG') + bytes([allowed]), cache)
            ctx.ran(); ctx.trans(3)
            judge_check(ctx, 'CHECK_SIG honest', r, st, 'true' if permitted else 'raise',
                        {'op': 'CHECK_SIG', 'block': 'flag x allowed', 'case': 'honest' if permitted else 'disallowed flag'})
        r, st, _ = run(push(sigbytes(honest, flag)) + push(pk) + op('CHECK_SIG_VERIFY') + bytes([allowed]), cache)
        ctx.ran(); ctx.trans(3)
        got = 'raise' if r is not None else ('ok' if st == [] else 'other')
        if got != ('ok' if permitted else 'raise'):
            ctx.violation({'op': 'CHECK_SIG_VERIFY', 'block': 'flag x allowed', 'case': 'honest' if permitted else 'disallowed flag'},
                          f'flag={flag:02x} allowed={allowed:02x}: got {got} {r!r} {st}')
        # signature made for `flag`, presented under a flag byte that differs in one bit
        for bit in range(8):
            f2 = flag ^ (1 << bit)
            perm2 = (f2 & ~allowed) == 0
            r, st, _ = run(push(sigbytes(honest, f2, True)) + push(pk) + op('CHECK_SIG') + bytes([allowed]), cache)
            ctx.ran(); ctx.trans(3)
            judge_check(ctx, 'CHECK_SIG flag-bit-off', r, st, 'false' if perm2 else 'raise',
                        {'op': 'CHECK_SIG', 'block': 'flag x allowed', 'case': 'one flag bit off'})
    ctx.evaluations -= 1


# ---------------------------------------------------------------- block B
def blockB(ctx, case):
    presence, variant = case
    seed = ctx.seed
    fields = fields_for(seed)
    if variant == 1:  # some present fields are empty
        fields = [b'' if i % 3 == 0 else f for i, f in enumerate(fields)]
    ks = keyseed(seed, 1)
    pk = refed.public_key(ks)
    cache = cache_for(fields, presence, {2: 1, 3: 2}.get(variant, 0))
    for flag in (range(256) if variant < 2 else (0x00, 0x01, 0x0f, 0x55, 0xaa, 0x80, 0xfe)):
        ctx.evaluations += 1
        ctx.state(('B', presence, flag, variant))
        m = msg(fields, presence, flag)
        r, st, _ = run(op('GET_MESSAGE') + bytes([flag]), cache)
        ctx.ran(); ctx.trans()
        if r is not None or st != [m]:
            ctx.violation({'op': 'GET_MESSAGE', 'clause': 'message = present fields with clear bit, index order'},
                          f'presence={presence:02x} flag={flag:02x}: {r!r} {st} want {m.hex()}')
        want_sig = sigbytes(refed.sign(ks, m), flag)
        r, st, _ = run(push(ks) + op('SIGN') + bytes([flag]), cache)
        ctx.ran(); ctx.trans(2)
        if r is not None or st != [want_sig]:
            ctx.violation({'op': 'SIGN', 'clause': 'RFC 8032 signature of the flag-selected message (+flag byte iff non-zero)'},
                          f'presence={presence:02x} flag={flag:02x}: {r!r} got {st and st[0].hex()} want {want_sig.hex()}')
        for allowed in (0xff, flag):
            r, st, _ = run(push(ks) + op('SIGN') + bytes([flag]) + push(pk) + op('CHECK_SIG') + bytes([allowed]), cache)
            ctx.ran(); ctx.trans(4)
            judge_check(ctx, 'SIGN->CHECK_SIG', r, st, 'true',
                        {'op': 'SIGN->CHECK_SIG', 'clause': 'sign-then-check succeeds for every allowed flag'})
        r, st, _ = run(push(ks) + op('SIGN') + bytes([flag]) + push(pk) + op('CHECK_SIG_VERIFY') + bytes([flag]), cache)
        ctx.ran(); ctx.trans(4)
        if r is not None or st != []:
            ctx.violation({'op': 'SIGN->CHECK_SIG_VERIFY', 'clause': 'sign-then-check succeeds for every allowed flag'},
                          f'presence={presence:02x} flag={flag:02x}: {r!r} {st}')
        if variant == 0 and flag in (0, 1, 0x80) and presence in (0, 1, 0xff):
            # the signing key is a 32-byte seed: every other length is an error for both signing instructions, and every bit of it matters
            for kl in (0, 1, 31, 33, 63, 64, 65, 96):
                bad = (ks * 3)[:kl]
                for iname, code in (('SIGN', op('SIGN') + bytes([flag])), ('SIGN_STACK', op('SIGN_STACK'))):
                    pre = (push(b'm') if iname == 'SIGN_STACK' else b'') + (push(bad) if kl else b'\x03\x00')
                    r, st, _ = run(pre + code, cache)
                    ctx.ran(); ctx.trans(2)
                    if r is None:
                        ctx.violation({'op': iname, 'clause': 'signing key length'}, f'{kl}-byte key: no error, stack {[x.hex()[:20] for x in st]}')
            if presence == 0xff and flag == 0:
                for bit in range(256):
                    k2 = flip(ks, bit)
                    r, st, _ = run(push(k2) + op('SIGN') + b'\x00', cache)
                    ctx.ran(); ctx.trans(2)
                    if r is not None or st != [refed.sign(k2, m)]:
                        ctx.violation({'op': 'SIGN', 'clause': 'every bit of the signing key matters'}, f'bit {bit}: {r!r}')
        # the same signature checked under another key
        pk2 = refed.public_key(keyseed(seed, 2))
        r, st, _ = run(push(want_sig) + push(pk2) + op('CHECK_SIG') + b'\xff', cache)
        ctx.ran(); ctx.trans(3)
        judge_check(ctx, 'CHECK_SIG other key', r, st, 'false',
                    {'op': 'CHECK_SIG', 'clause': 'other key fails'})
    ctx.evaluations -= 1


# ---------------------------------------------------------------- block C
def flip(b, bit):
    ba = bytearray(b)
    ba[bit // 8] ^= 1 << (bit % 8)
    return bytes(ba)


def blockC(ctx, case):
    k, flag, presence, part = case
    seed = ctx.seed
    fields = fields_for(seed, 1)
    ks = keyseed(seed, k)
    pk = refed.public_key(ks)
    cache = cache_for(fields, presence)
    m = msg(fields, presence, flag)
    sig64 = refed.sign(ks, m)
    sig = sigbytes(sig64, flag)
    allowed = 0xff
    tail = op('CHECK_SIG') + bytes([allowed])
    n = 0

    def one(what, s, key, c, expect, sigd):
        nonlocal n
        n += 1
        r, st, _ = run(push(s) + push(key) + tail, c) if len(s) and len(key) else \
            run((b'\x03\x00' if not len(s) else push(s)) + (b'\x03\x00' if not len(key) else push(key)) + tail, c)
        ctx.ran(); ctx.trans(3)
        ctx.state(('C', k, flag, presence, what))
        judge_check(ctx, 'CHECK_SIG ' + what.split(':')[0], r, st, expect, sigd)
        if part == 'key' and expect != 'raise':
            # the _VERIFY form on the same input
            r, st, _ = run(push(s) + push(key) + op('CHECK_SIG_VERIFY') + bytes([allowed]), c)
            ctx.ran(); ctx.trans(3)
            if (expect == 'true') != (r is None and st == []):
                ctx.violation({'op': 'CHECK_SIG_VERIFY', 'clause': 'corruption: ' + what.split(':')[0]},
                              f'{what}: expected {expect}: {r!r} {st}')

    if part == 'key':
        for bit in range(256):
            key2 = flip(pk, bit)
            exp = 'true' if refed.verify_strict(key2, m, sig64) else 'nottrue'
            one('key bit:%d' % bit, sig, key2, cache, exp, {'op': 'CHECK_SIG', 'clause': 'corrupted key'})
        for ln in (0, 31, 33, 64):
            key2 = (pk * 2)[:ln]
            one('key len:%d' % ln, sig, key2, cache, 'raise', {'op': 'CHECK_SIG', 'clause': 'key length'})
    elif part == 'sig':
        for bit in range(512):
            s2 = flip(sig64, bit)
            exp = 'true' if refed.verify_strict(pk, m, s2) else 'nottrue'
            one('sig bit:%d' % bit, sigbytes(s2, flag), pk, cache, exp, {'op': 'CHECK_SIG', 'clause': 'corrupted signature'})
        for ln in (0, 63, 66, 128):
            s2 = (sig64 * 2 + sig64)[:ln]
            one('sig len:%d' % ln, s2, pk, cache, 'raise', {'op': 'CHECK_SIG', 'clause': 'signature length'})
    elif part == 'fields':
        for i in range(8):
            if not presence >> i & 1:
                # adding an absent field: covered iff its flag bit is clear
                c2 = dict(cache)
                c2[NAMES[i]] = b'\x01'
                covered = not flag >> i & 1
                one('field add:%d' % i, sig, pk, c2, 'false' if covered else 'true',
                    {'op': 'CHECK_SIG', 'clause': 'added covered field' if covered else 'added excluded field'})
                continue
            covered = not flag >> i & 1
            for bit in range(8 * len(fields[i])):
                c2 = dict(cache)
                c2[NAMES[i]] = flip(fields[i], bit)
                one('field bit:%d.%d' % (i, bit), sig, pk, c2, 'false' if covered else 'true',
                    {'op': 'CHECK_SIG', 'clause': 'corrupted covered field' if covered else 'excluded field is irrelevant'})
            c2 = dict(cache)
            del c2[NAMES[i]]
            one('field del:%d' % i, sig, pk, c2, 'false' if covered else 'true',
                {'op': 'CHECK_SIG', 'clause': 'removed covered field' if covered else 'excluded field is irrelevant'})
    ctx.evaluations += n - 1


# ---------------------------------------------------------------- block D
MSG_LENS = [0, 1, 31, 32, 33, 63, 64, 65, 255, 256, 1024]


def blockD(ctx, case):
    k, ln, deep = case
    seed = ctx.seed
    ks = keyseed(seed, k)
    pk = refed.public_key(ks)
    m = env.sym(seed, 'stackmsg%d' % ln, ln)
    want = refed.sign(ks, m)
    pm = push(m) if ln != 0 else b'\x03\x00'
    n = 1
    r, st, _ = run(pm + push(ks) + op('SIGN_STACK'))
    ctx.ran(); ctx.trans(3)
    ctx.state(('D', k, ln))
    if r is not None or st != [want]:
        ctx.violation({'op': 'SIGN_STACK', 'clause': 'RFC 8032 signature of the stack message'},
                      f'len={ln}: {r!r} {st and st[0].hex()}')
    css = op('CHECK_SIG_STACK')

    def chk(what, s, mm, key, expect, clause):
        nonlocal n
        n += 1
        ps = [b'\x03\x00' if not len(x) else push(x) for x in (s, mm, key)]
        r, st, _ = run(b''.join(ps) + css)
        ctx.ran(); ctx.trans(4)
        ctx.state(('D', k, ln, what))
        judge_check(ctx, 'CHECK_SIG_STACK ' + what.split(':')[0], r, st, expect,
                    {'op': 'CHECK_SIG_STACK', 'clause': clause})

    chk('honest', want, m, pk, 'true', 'honest')
    r, st, _ = run(pm + push(ks) + op('SIGN_STACK') + pm + push(pk) + css)
    ctx.ran(); ctx.trans(6)
    judge_check(ctx, 'SIGN_STACK->CHECK_SIG_STACK', r, st, 'true', {'op': 'SIGN_STACK->CHECK_SIG_STACK', 'clause': 'e2e'})
    chk('other key', want, m, refed.public_key(keyseed(seed, (k + 1) % 3)), 'false', 'other key')
    chk('other msg', want, m + b'\x00', pk, 'false', 'other message') if ln < 1024 else None
    for kl in (0, 31, 33, 64):
        chk('key len:%d' % kl, want, m, (pk * 2)[:kl], 'raise', 'key length')
    for sl in (0, 63, 65, 66, 128):
        chk('sig len:%d' % sl, (want * 3)[:sl], m, pk, 'raise', 'signature length')
    if deep:
        for bit in range(512):
            s2 = flip(want, bit)
            chk('sig bit:%d' % bit, s2, m, pk, 'true' if refed.verify_strict(pk, m, s2) else 'nottrue', 'corrupted signature')
        for bit in range(256):
            k2 = flip(pk, bit)
            chk('key bit:%d' % bit, want, m, k2, 'true' if refed.verify_strict(k2, m, want) else 'nottrue', 'corrupted key')
        for bit in range(8 * min(ln, 64)):
            chk('msg bit:%d' % bit, want, flip(m, bit), pk, 'false', 'corrupted message')
    ctx.evaluations += n - 1


def blockE(ctx, case):
    """messages around and above the default 1024-byte item size under raised / lowered item limits: the signing, message
    and checking instructions cover the same bytes under every limit"""
    total, limit = case
    seed = ctx.seed
    ks = keyseed(seed, 0)
    pk = refed.public_key(ks)
    per = total // 3
    cache = {'sigfield1': env.sym(seed, 'big1', per), 'sigfield2': env.sym(seed, 'big2', per), 'sigfield5': env.sym(seed, 'big5', total - 2 * per)}
    n = 0
    for flag in (0x00, 0x02, 0x10, 0x12):
        m = b''.join(cache[k] for k in sorted(cache) if not flag >> (int(k[-1]) - 1) & 1)
        fits = len(m) <= limit
        want_sig = sigbytes(refed.sign(ks, m), flag)
        kw = dict(stack_max_item_size=limit)
        n += 1
        ctx.state(('E', total, limit, flag))
        r, st, _ = run(op('GET_MESSAGE') + bytes([flag]), cache, **kw)
        ctx.ran(); ctx.trans()
        if (r is None) != fits or (fits and st != [m]):
            ctx.violation({'op': 'GET_MESSAGE', 'clause': 'message under a non-default item limit'}, f'len {len(m)} limit {limit}: {r!r}')
        r, st, _ = run(push(ks) + op('SIGN') + bytes([flag]), cache, **kw)
        ctx.ran(); ctx.trans(2)
        if fits and (r is not None or st != [want_sig]):
            ctx.violation({'op': 'SIGN', 'clause': 'signs the same message GET_MESSAGE returns, under every item limit'},
                          f'message {len(m)} bytes, item limit {limit}, flag {flag:02x}: {r!r}')
        r, st, _ = run(push(want_sig) + push(pk) + op('CHECK_SIG') + b'\xff', cache, **kw)
        ctx.ran(); ctx.trans(3)
        if fits and (r is not None or st != [TRUE]):
            ctx.violation({'op': 'CHECK_SIG', 'clause': 'checks the same message GET_MESSAGE returns, under every item limit'},
                          f'message {len(m)} bytes, item limit {limit}, flag {flag:02x}: {r!r} {st}')
        r, st, _ = run(push(ks) + op('SIGN') + bytes([flag]) + push(pk) + op('CHECK_SIG') + bytes([flag]), cache, **kw)
        ctx.ran(); ctx.trans(4)
        if fits and (r is not None or st != [TRUE]):
            ctx.violation({'op': 'SIGN->CHECK_SIG', 'clause': 'sign-then-check under a non-default item limit'},
                          f'message {len(m)} bytes, item limit {limit}, flag {flag:02x}: {r!r} {st}')
    # item-count limit: the signing and checking instructions consume their operands before they produce anything, so
    # they work on a stack that is exactly full (GET_MESSAGE, which only produces, needs one free slot)
    if limit == 1024:
        small = {'sigfield1': b'ab', 'sigfield3': b'c'}
        for mi in (1, 2, 3, 1024):
            for flag in (0x00, 0x01, 0x84):
                n += 1
                m = b''.join(small[k] for k in sorted(small) if not flag >> (int(k[-1]) - 1) & 1)
                want_sig = sigbytes(refed.sign(ks, m), flag)
                fill = op('TRUE') * (mi - 1) if mi <= 3 else op('TRUE') * 1023
                kw = dict(stack_max_items=mi)
                ctx.state(('E-items', total, mi, flag))
                r, st, _ = run(fill + push(ks) + op('SIGN') + bytes([flag]), small, **kw)
                ctx.ran(); ctx.trans(2)
                if r is not None or st[-1:] != [want_sig]:
                    ctx.violation({'op': 'SIGN', 'clause': 'signs on an exactly full stack (operands are consumed first)'},
                                  f'stack_max_items {mi}, flag {flag:02x}: {r!r}')
                if mi >= 2:
                    fill2 = fill[:-1]
                    r, st, _ = run(fill2 + push(want_sig) + push(pk) + op('CHECK_SIG') + b'\xff', small, **kw)
                    ctx.ran(); ctx.trans(3)
                    if r is not None or st[-1:] != [TRUE]:
                        ctx.violation({'op': 'CHECK_SIG', 'clause': 'checks on an exactly full stack (operands are consumed first)'},
                                      f'stack_max_items {mi}, flag {flag:02x}: {r!r} {st[-1:]}')
                r, st, _ = run(fill + op('TRUE') + op('GET_MESSAGE') + bytes([flag]), small, **kw)
                ctx.ran(); ctx.trans()
                if r is None:
                    ctx.violation({'op': 'GET_MESSAGE', 'clause': 'item-count limit enforced'}, f'stack_max_items {mi}: {len(st)} items')
    ctx.evaluations += n - 1


def blocks(tier, seed):
    q = tier == 'quick'
    if q:
        masks = sorted({0, 0xff} | {1 << i for i in range(8)} | {0xff ^ (1 << i) for i in range(8)})
    else:
        masks = list(range(256))
    A = [(flag, masks) for flag in range(256)] if q else [(flag, masks, k) for flag in range(256) for k in range(3)]
    B = [(presence, v) for presence in range(256) for v in ((0, 2, 3) if q else (0, 1, 2, 3))]
    if q:
        C = [(0, f, pr, part) for (f, pr) in ((0, 0xff), (0xa5, 0x7e)) for part in ('key', 'sig', 'fields')]
    else:
        C = [(k, f, pr, part) for k in range(3) for (f, pr) in ((0, 0xff), (0xa5, 0x7e), (0x80, 0x81), (0xfe, 0x0f))
             for part in ('key', 'sig', 'fields')]
    D = [(k, ln, (ln in (32, 65) and (k == 0 or not q))) for k in range(3) for ln in MSG_LENS]
    return [
        Block('A_flag_x_allowed_matrix', A, blockA, 'all 256 flags x %d allowed masks, honest + 8 one-bit-off presentations' % len(masks)),
        Block('B_presence_x_flag', B, blockB, 'all 256 presence subsets x all 256 flags: GET_MESSAGE, SIGN, SIGN->CHECK_SIG(_VERIFY); descending / interleaved dict insertion orders x 7 flags'),
        Block('C_single_bit_corruptions', C, blockC, 'every bit of key, signature, covered and excluded fields; lengths', nshards=len(C)),
        Block('E_item_limits', [(t, l) for t in (90, 1023, 1024, 1025, 1536, 3000, 6000) for l in (100, 1024, 1025, 2048, 8192)], blockE,
              'message sizes around 1024 x stack_max_item_size in {100, 1024, 1025, 2048, 8192} x flags', nshards=35),
        Block('D_stack_forms', D, blockD, 'SIGN_STACK / CHECK_SIG_STACK over message lengths, lengths and bit corruptions', nshards=len(D)),
    ]


def meta(tier, seed):
    assert refed.selftest()
    return dict(
        rule='complete products (flag x allowed, presence x flag, every bit position) executed through run_script; '
             'expected verdict from msg(fields,flag) and RFC 8032 reference sign/verify',
        states_meaning='distinct (block, flag, allowed/presence, presentation) configurations; transitions = VM instructions executed',
        bounds={'keys': 3, 'allowed_masks': 18 if tier == 'quick' else 256, 'flags': 256, 'presence_subsets': 256},
        assumptions=['key/field contents beyond the 3-key / 2-content alphabet rely on data independence (DESIGN 2.6)',
                     'for corrupted-but-decodable keys and signatures the expected verdict is computed by ref.refed.verify_strict '
                     '(libsodium acceptance rule); "not true" (false or error) is accepted for invalid ones',
                     'Ed25519 unforgeability / SHA-512 collision resistance for the "never true" direction'],
    )
