"""C16 - time constraints accept exactly their documented window.

Exhaustive grid around every boundary: execution timestamp t, verifier clock
`now` (virtual clock, mc.env), constraint c in every unsigned encoding of 1..9
bytes, thresholds; instructions CHECK_TIMESTAMP / CHECK_EPOCH (+_VERIFY) and
the three timestamp lock builders through run_auth_scripts.
"""
from mc import env
from mc.run import Block
from mc.vm import run, auth, TRUE, FALSE
from ref.optable import op, push

F, T = env.functions, env.tools
ANCHORS = [0, 1, 2] + [(1 << k) + d for k in (7, 8, 15, 16, 31, 32, 62, 63, 64) for d in range(-2, 3)]
THRS = [-1, 0, 1, 2, 60, 3600]
ETHRS = [0, 1, 60]


def encodings(c):
    l0 = max(1, (c.bit_length() + 7) // 8)
    return [c.to_bytes(ln, 'big') for ln in range(l0, 10)]


def pushc(b):
    return b'\x03' + bytes([len(b)]) + b


def got_of(r, st):
    return 'raise' if r is not None else 'true' if st == [TRUE] else 'false' if st == [FALSE] else 'other:%r' % (st,)


def cts_case(ctx, t):
    n = 0
    for c in sorted({t + dc for dc in range(-2, 3)} | {0, 1}):      # around t, and the two smallest constraints there are
        if c < 0:
            continue
        for enc in encodings(c):
            for thr in THRS:
                for dn in list(range(-2, 3)) + [-(2 * thr + 1), -(2 * thr + 100), -(thr + 100000)]:
                    # the last three put the verifier clock AHEAD of the timestamp (t - now = -thr-1, ...): only a timestamp
                    # in the future is limited by the slack, one in the past is not
                    now = t - (thr + dn)
                    want = t >= c and (thr <= 0 or t - now < thr)
                    # a real clock reads fractions of a second: the whole second counts (int(time())), so now + 0.5 and
                    # now + 0.999 are the same instant as now
                    for verify, frac in ((False, 0), (True, 0)) + (((False, 0.5), (True, 0.999)) if 0 <= now < 2 ** 50 and int(now + 0.999) == now else ()):
                        env.Clock.now = now + frac if frac else now
                        n += 1
                        code = pushc(enc) + op('CHECK_TIMESTAMP_VERIFY' if verify else 'CHECK_TIMESTAMP')
                        r, st, _ = run(code, {'timestamp': t}, additional_flags={'ts_threshold': thr})
                        ctx.ran(); ctx.trans(2)
                        ctx.state(('cts', t, c, len(enc), thr, dn, verify))
                        if verify:
                            g = 'raise' if r is not None else 'ok' if st == [] else 'other'
                            ok = g == ('ok' if want else 'raise')
                        else:
                            g = got_of(r, st)
                            ok = g == ('true' if want else 'false')
                        ctx.outcome(('CTSV:' if verify else 'CTS:') + g[:5])
                        if not ok:
                            clause = 'constraint' if (t >= c) != want or t < c else 'future slack'
                            ctx.violation({'op': 'CHECK_TIMESTAMP_VERIFY' if verify else 'CHECK_TIMESTAMP', 'clause': clause,
                                           'got': g[:5]},
                                          f't={t} c={c} enc={enc.hex()} thr={thr} now={now}: want {want}, got {g} {r!r}')
    # malformed inputs must raise, never true
    env.Clock.now = t
    for what, cache, code in (
            ('empty constraint', {'timestamp': t}, b'\x03\x00' + op('CHECK_TIMESTAMP')),
            ('timestamp is str', {'timestamp': str(t)}, pushc(b'\x00') + op('CHECK_TIMESTAMP')),
            ('timestamp is float', {'timestamp': float(t)}, pushc(b'\x00') + op('CHECK_TIMESTAMP')),
            ('timestamp is bytes', {'timestamp': b'\x01'}, pushc(b'\x00') + op('CHECK_TIMESTAMP')),
            ('timestamp is None', {'timestamp': None}, pushc(b'\x00') + op('CHECK_TIMESTAMP'))):
        n += 1
        r, st, _ = run(code, cache)
        ctx.ran(); ctx.trans(2)
        if r is None:
            ctx.violation({'op': 'CHECK_TIMESTAMP', 'clause': 'malformed input must raise', 'what': what}, f't={t}: {st}')
    # timestamp missing from the cache (only reachable through run_tape)
    n += 1
    tape, stack = env.classes.Tape(pushc(b'\x00') + op('CHECK_TIMESTAMP')), env.classes.Stack()
    try:
        F.run_tape(tape, stack, {})
        ctx.violation({'op': 'CHECK_TIMESTAMP', 'clause': 'malformed input must raise', 'what': 'timestamp missing'},
                      f'{stack.list()}')
    except BaseException:
        pass
    ctx.ran(); ctx.trans(2)
    ctx.evaluations += n - 1


def ce_case(ctx, c):
    n = 0
    for enc in encodings(c):
        for ethr in ETHRS:
            for dn in range(-2, 3):
                now = c - (ethr + dn)
                env.Clock.now = now
                want = c - now < ethr
                fracs = (0.5, 0.999) if 0 <= now < 2 ** 50 and int(now + 0.999) == now else ()   # (a double cannot hold now + 0.999 above 2^43)
                # the epoch window is measured against the verifier clock: the execution timestamp in the cache
                # (absent, zero, far past, far future) must not matter
                for verify, tsv, frac in ((False, None, 0), (True, None, 0), (False, 0, 0), (False, now - 1000, 0), (True, now + 1000, 0)) + \
                        tuple((v, None, f) for f in fracs for v in (False, True)):
                    env.Clock.now = now + frac if frac else now
                    n += 1
                    code = pushc(enc) + op('CHECK_EPOCH_VERIFY' if verify else 'CHECK_EPOCH')
                    r, st, _ = run(code, {} if tsv is None else {'timestamp': max(tsv, 0)}, additional_flags={'epoch_threshold': ethr})
                    ctx.ran(); ctx.trans(2)
                    ctx.state(('ce', c, len(enc), ethr, dn, verify, None if tsv is None else tsv - now))
                    if verify:
                        g = 'raise' if r is not None else 'ok' if st == [] else 'other'
                        ok = g == ('ok' if want else 'raise')
                    else:
                        g = got_of(r, st)
                        ok = g == ('true' if want else 'false')
                    ctx.outcome(('CEV:' if verify else 'CE:') + g[:5])
                    if not ok:
                        ctx.violation({'op': 'CHECK_EPOCH_VERIFY' if verify else 'CHECK_EPOCH', 'clause': 'window', 'got': g[:5]},
                                      f'c={c} enc={enc.hex()} ethr={ethr} now={now} cache timestamp={tsv}: want {want}, got {g} {r!r}')
        # default threshold (60) without additional flags
        for dn in range(-2, 3):
            now = c - (60 + dn)
            env.Clock.now = now
            n += 1
            r, st, _ = run(pushc(enc) + op('CHECK_EPOCH'), {})
            ctx.ran(); ctx.trans(2)
            if got_of(r, st) != ('true' if c - now < 60 else 'false'):
                ctx.violation({'op': 'CHECK_EPOCH', 'clause': 'default threshold'}, f'c={c} now={now}: {got_of(r, st)}')
    env.Clock.now = c
    for what, code, fl in (('empty constraint', b'\x03\x00' + op('CHECK_EPOCH'), {}),
                           ('negative epoch_threshold', pushc(b'\x00') + op('CHECK_EPOCH'), {'epoch_threshold': -1}),
                           ('non-int epoch_threshold', pushc(b'\x00') + op('CHECK_EPOCH'), {'epoch_threshold': '1'})):
        n += 1
        r, st, _ = run(code, {}, additional_flags=fl)
        ctx.ran(); ctx.trans(2)
        if r is None:
            ctx.violation({'op': 'CHECK_EPOCH', 'clause': 'malformed input must raise', 'what': what}, f'c={c}: {st}')
    ctx.evaluations += n - 1


def _blk(b):
    return len(b).to_bytes(2, 'big') + b


def wraps(body):
    """the same instruction inside every kind of nested body (the verifier's thresholds reach all of them)"""
    fail = op('FALSE') + op('VERIFY')
    return {
        'IF': op('TRUE') + op('IF') + _blk(body),
        'IFELSE_T': op('TRUE') + op('IF_ELSE') + _blk(body) + _blk(fail),
        'IFELSE_F': op('FALSE') + op('IF_ELSE') + _blk(fail) + _blk(body),
        'TRY': op('TRY_EXCEPT') + _blk(body) + _blk(b''),
        'EXCEPT': op('TRY_EXCEPT') + _blk(fail) + _blk(body),
        'LOOP': op('TRUE') + op('LOOP') + _blk(op('POP0') + body + op('FALSE')) + op('POP0'),
        'FUNC': op('DEF') + b'\x00' + _blk(body) + op('CALL') + b'\x00',
        'EVAL': pushc(body) + op('EVAL'),
        'IF>IFELSE_F': op('TRUE') + op('IF') + _blk(op('FALSE') + op('IF_ELSE') + _blk(fail) + _blk(body)),
    }


def nested_case(ctx, case):
    kind, which = case
    n = 0
    t = 1_700_000_000
    for thr in (0, 5, 100, 61):
        for dn in (-1, 0, 1, 70):
            if which == 'CTS':
                now = t - (thr + dn)
                want = thr <= 0 or t - now < thr
                body = pushc(t.to_bytes(4, 'big')) + op('CHECK_TIMESTAMP')
                flags = {'ts_threshold': thr}
            else:
                now = t - (thr + dn)
                want = t - now < thr
                body = pushc(t.to_bytes(4, 'big')) + op('CHECK_EPOCH')
                flags = {'epoch_threshold': thr}
            env.Clock.now = now
            n += 1
            r, st, _ = run(wraps(body)[kind], {'timestamp': t}, additional_flags=flags)
            ctx.ran(); ctx.trans(3)
            ctx.state(('nested', kind, which, thr, dn))
            g = got_of(r, st)
            ctx.outcome('nested:' + g[:5])
            if g != ('true' if want else 'false'):
                ctx.violation({'op': 'CHECK_TIMESTAMP' if which == 'CTS' else 'CHECK_EPOCH', 'clause': 'verifier threshold inside a nested body',
                               'inside': kind}, f'{which} inside {kind} threshold {thr} t-now={t - now}: want {want}, got {g} {r!r}')
    ctx.evaluations += n - 1


def global_history_case(ctx, case):
    """the verifier changes its global thresholds (functions.flags) between runs: every run uses the values in force when
    it starts, whatever earlier runs used"""
    which, seq = case
    t = 1_700_000_000
    key = 'ts_threshold' if which == 'CTS' else 'epoch_threshold'
    saved = F.flags[key]
    n = 0
    try:
        for step, thr in enumerate(seq):
            F.flags[key] = thr
            for dn in (-1, 0, 1):
                n += 1
                now = t - (thr + dn)
                env.Clock.now = now
                if which == 'CTS':
                    want = thr <= 0 or t - now < thr
                    code = pushc(t.to_bytes(4, 'big')) + op('CHECK_TIMESTAMP')
                else:
                    want = t - now < thr
                    code = pushc(t.to_bytes(4, 'big')) + op('CHECK_EPOCH')
                for runner in ('run_script', 'run_auth_scripts'):
                    if runner == 'run_script':
                        r, st, _ = run(code, {'timestamp': t})
                        g = got_of(r, st)
                    else:
                        g = 'true' if auth([code + op('VERIFY') + op('TRUE')], {'timestamp': t}) else 'false'
                    ctx.ran(); ctx.trans(2)
                    ctx.state(('global-history', which, seq, step, dn, runner))
                    ctx.outcome('gh:' + g[:5])
                    if g != ('true' if want else 'false'):
                        ctx.violation({'op': 'CHECK_TIMESTAMP' if which == 'CTS' else 'CHECK_EPOCH', 'clause': 'global threshold in force at the start of the run',
                                       'history': 'threshold changed between runs'},
                                      f'{which} thresholds so far {seq[:step + 1]} t-now={t - now} via {runner}: want {want}, got {g}')
    finally:
        F.flags[key] = saved
    ctx.evaluations += n - 1


def cache_reuse_case(ctx, case):
    """the embedder hands the cache a run returned to the next run (with the clock somewhere else by then): every check uses the
    verifier clock of its own run"""
    which, clocks, thr = case
    t = 1_700_000_000
    cache = {'timestamp': t}
    n = 0
    for i, dn in enumerate(clocks):
        now = t - dn
        env.Clock.now = now
        n += 1
        if which == 'CTS':
            want = thr <= 0 or t - now < thr
            code = pushc((t - 5).to_bytes(4, 'big')) + op('CHECK_TIMESTAMP')
            fl = {'ts_threshold': thr}
        else:
            want = t - now < thr
            code = pushc(t.to_bytes(4, 'big')) + op('CHECK_EPOCH')
            fl = {'epoch_threshold': max(thr, 0)}
            want = t - now < max(thr, 0)
        r, st, c2 = run(code, cache, additional_flags=fl)
        ctx.ran(); ctx.trans(2)
        ctx.state(('cache reuse', which, clocks, thr, i))
        g = got_of(r, st)
        ctx.outcome('reuse:' + g[:5])
        if g != ('true' if want else 'false'):
            ctx.violation({'op': 'CHECK_TIMESTAMP' if which == 'CTS' else 'CHECK_EPOCH', 'clause': 'verifier clock of the run itself',
                           'history': 'returned cache handed to the next run'},
                          f'{which} threshold {thr}, run {i + 1} of clocks t-{list(clocks)} on the cache the previous run returned: want {want}, got {g}')
        if c2 is not None:
            extra = sorted(k for k in c2 if type(k) is str and k != 'timestamp')
            if extra:
                ctx.violation({'op': 'CHECK_TIMESTAMP' if which == 'CTS' else 'CHECK_EPOCH', 'clause': 'a time check leaves no string-keyed entry in the cache'},
                              f'{which}: returned cache has {extra}')
            cache = dict(c2)
    ctx.evaluations += n - 1


DEF_THR = 60


def lock_case(ctx, ts):
    """builders through run_auth_scripts (default ts_threshold 60)"""
    n = 0
    for verify in (False, True):
        after = T.make_timestamp_after_lock(ts, verify).bytes
        before = T.make_timestamp_before_lock(ts, verify).bytes
        tail = [b'\x01'] if verify else []
        for dt in range(-2, 3):
            t = ts + dt
            if t < 0:
                continue
            for dn in (-2, -1, 0, 1, 2, None):
                # dn: position of t - now around the slack threshold; None: now == t
                now = t if dn is None else t - (DEF_THR + dn)
                env.Clock.now = now
                in_slack = t - now < DEF_THR
                n += 2
                ga = auth([after] + tail, {'timestamp': t})
                gb = auth([before] + tail, {'timestamp': t})
                ctx.ran(2); ctx.trans(4)
                ctx.state(('lock', ts, dt, dn, verify))
                wa = t >= ts and in_slack
                wb = t < ts
                ctx.outcome('after:%s before:%s' % (ga, gb))
                if ga is not wa:
                    ctx.violation({'builder': 'make_timestamp_after_lock', 'kind': 'accepts' if ga else 'rejects'},
                                  f'ts={ts} t={t} now={now} verify={verify}: want {wa}, got {ga}')
                if gb is not wb:
                    ctx.violation({'builder': 'make_timestamp_before_lock', 'kind': 'accepts' if gb else 'rejects',
                                   'region': ('t>=ts' if t >= ts else 't<ts') + (' within slack' if in_slack else ' beyond slack')},
                                  f'ts={ts} t={t} now={now} verify={verify}: want {wb}, got {gb}')
    # between lock: begin/end around ts, including begin == end
    for verify in (False, True):
        tail = [b'\x01'] if verify else []
        for db in (-2, -1, 0, 1, 2):
            for de in (-2, -1, 0, 1, 2):
                # all orders of the two bounds: begin > end (and begin == end) is an empty window
                b, e = ts + db, ts + de
                if b < 0 or e < 0:
                    continue
                lock = T.make_timestamp_between_lock(b, e, verify).bytes
                for t in range(max(min(b, e) - 1, 0), max(b, e) + 2):
                    for dn in (-1, 0, None):
                        now = t if dn is None else t - (DEF_THR + dn)
                        env.Clock.now = now
                        n += 1
                        g = auth([lock] + tail, {'timestamp': t})
                        ctx.ran(); ctx.trans(5)
                        ctx.state(('between', b, e, t, dn, verify))
                        w = b <= t < e and t - now < DEF_THR
                        if g is not w:
                            ctx.violation({'builder': 'make_timestamp_between_lock', 'kind': 'accepts' if g else 'rejects'},
                                          f'begin={b} end={e} t={t} now={now} verify={verify}: want {w}, got {g}')
    ctx.evaluations += n - 1


def blocks(tier, seed):
    anchors = ANCHORS if tier == 'quick' else sorted(set(ANCHORS + [(1 << k) + d for k in range(3, 73) for d in range(-2, 3)] + list(range(0, 300))))
    ts_list = [a for a in anchors if a >= 2]
    return [
        Block('CHECK_TIMESTAMP_grid', anchors, cts_case, 't x c in t+-2 x every encoding 1..9 bytes x thr x now around thr', nshards=len(anchors)),
        Block('CHECK_EPOCH_grid', anchors, ce_case, 'c x encodings x ethr x now around ethr', nshards=len(anchors)),
        Block('returned_cache_reused_by_later_runs', [(w, seq, thr) for w in ('CTS', 'CE') for thr in (10, 60)
                                                      for seq in ((thr, thr - 1), (thr - 1, thr), (thr + 5, 0, thr), (0, thr, thr - 1, thr + 1), (-100, thr - 1, thr))],
              cache_reuse_case, 'CHECK_TIMESTAMP / CHECK_EPOCH x threshold {10, 60} x 5 clock sequences across the slack edge, each run on the cache the previous one returned', nshards=20),
        Block('global_threshold_histories', [(w, seq) for w in ('CTS', 'CE') for seq in ((60, 0, 100), (0, 60), (100, 5, 60), (5, 100, 0))],
              global_history_case, 'functions.flags thresholds changed between runs (4 sequences) x clock around each x run_script / run_auth_scripts',
              nshards=8),
        Block('nested_placements', [(k, w) for k in wraps(b'') for w in ('CTS', 'CE')], nested_case,
              'CHECK_TIMESTAMP / CHECK_EPOCH inside IF, both IF_ELSE arms, TRY, EXCEPT, LOOP, DEF/CALL, EVAL x custom thresholds x clock around them',
              nshards=18),
        Block('timestamp_lock_builders', ts_list, lock_case, 'after / before / between locks (both orders of the bounds) through run_auth_scripts', nshards=len(ts_list)),
    ]


def meta(tier, seed):
    return dict(
        rule='complete grid: anchors {0,1,2} + 2^k+d (k in 7,8,15,16,31,32,62,63,64; |d|<=2), constraint c=t+-2 in every 1..9 byte '
             'unsigned encoding, thresholds, clock positions +-2 around the slack threshold; pure-arithmetic oracle from the statement',
        states_meaning='distinct (t, c, encoding length, threshold, clock offset, form) grid points; transitions = instructions',
        bounds={'anchors': len(ANCHORS) if tier == 'quick' else 'every 2^k+-2 for k=3..72 and 0..299', 'ts_thresholds': THRS, 'epoch_thresholds': ETHRS},
        assumptions=['the "random 63-bit values" clause is replaced by every width boundary on both sides',
                     'clock is the virtual clock bound into functions.time/tools.time before import; it returns exact Python ints (a float clock cannot represent the 2^62..2^64 anchors)'],
    )
