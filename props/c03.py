"""C03 - multisig passes only with m valid signatures from m different listed keys.

Every ordered sequence of m signature tokens over the token alphabet
{X.v0, X.v1 : X in listed keys + 2 outsiders} + {first/last listed key with an explicit
00 flag byte, garbage with a never-permitted flag 02, BAD}, every m <= n, n <= 5, and
every permutation of the key list (bounds per tier) is executed through
OP_CHECK_MULTISIG; the oracle is a maximum matching on the reference validity
relation (for distinct keys: all tokens by pairwise different listed signers).
"""
import itertools

from mc import env
from mc.run import Block
from mc.vm import run, auth, TRUE, FALSE
from ref import refed
from ref.optable import op, push

T = env.tools


def setup(seed):
    f1, f2 = env.sym(seed, 'ms.f1', 7), env.sym(seed, 'ms.f2', 9)
    cache = {'sigfield1': f1, 'sigfield2': f2}
    seeds = {('L', i): env.sym(seed, 'L%d' % i) for i in range(5)}
    seeds[('O', 0)] = env.sym(seed, 'O0')
    seeds[('O', 1)] = env.sym(seed, 'O1')
    return cache, f1, f2, seeds


_CACHE = {}


def token_sig(seed, tok):
    key = (seed, tok)
    if key in _CACHE:
        return _CACHE[key]
    cache, f1, f2, seeds = setup(seed)
    if tok == 'BAD':
        s = bytearray(refed.sign(seeds[('L', 0)], f1 + f2))
        s[40] ^= 4
        r = bytes(s)
    else:
        who, ver = tok
        if who == 'GARB':
            r = env.sym(seed, 'garbage-sig', 64) + b'\x02'
        elif ver == 0:
            r = refed.sign(seeds[who], f1 + f2)
        elif ver == 2:      # explicit 00 flag byte: same signer, same message, different bytes
            r = refed.sign(seeds[who], f1 + f2) + b'\x00'
        else:
            r = refed.sign(seeds[who], f2) + b'\x01'
    _CACHE[key] = r
    return r


def tokens(n):
    signers = [('L', i) for i in range(n)] + [('O', 0), ('O', 1)]
    extra = [(('L', 0), 2)] + ([(('L', n - 1), 2)] if n > 1 else []) + [('GARB', 3)]
    return [(w, v) for w in signers for v in (0, 1)] + extra + ['BAD']


def expected(seq, n, allowed):
    """'true' | 'false' | 'nottrue'"""
    flagged = any(t != 'BAD' and (t[1] == 1 and not allowed & 1 or t[1] == 3) for t in seq)
    if flagged:
        return 'nottrue'  # non-permitted flag: error (or false), never true
    signers = []
    for t in seq:
        if t == 'BAD' or t[0] == 'GARB' or t[0][0] != 'L' or t[0][1] >= n:
            return 'false'
        signers.append(t[0])
    return 'true' if len(set(signers)) == len(signers) else 'false'


def case_fn(ctx, case):
    n, m, perm, first = case
    seed = ctx.seed
    cache, f1, f2, seeds = setup(seed)
    keys = [refed.public_key(seeds[('L', i)]) for i in perm]
    keypush = b''.join(push(k) for k in keys)
    toks = tokens(n)
    cnt = 0
    rest = itertools.product(toks, repeat=m - 1) if m >= 1 else [()]
    for tail in rest:
        seq = ((first,) + tail) if m >= 1 else ()
        sigpush = b''.join(push(token_sig(seed, t)) for t in seq)
        for allowed in (1, 0):
            cnt += 1
            exp = expected(seq, n, allowed)
            r, st, _ = run(sigpush + keypush + op('CHECK_MULTISIG') + bytes([allowed, m, n]), cache)
            ctx.ran(); ctx.trans(m + n + 1)
            got = 'raise' if r is not None else ('true' if st == [TRUE] else 'false' if st == [FALSE] else 'other')
            ctx.state((n, m, perm, seq, allowed))
            ctx.outcome('%s->%s' % (exp, got))
            ok = got == exp or (exp == 'nottrue' and got in ('false', 'raise'))
            if not ok:
                kind = 'accepts' if got == 'true' else 'rejects' if exp == 'true' else 'malformed result'
                why = 'duplicate signer' if exp == 'false' and all(t != 'BAD' and t[0] != 'GARB' and t[0][0] == 'L' for t in seq) else \
                      'unlisted/invalid signature' if exp == 'false' else 'disallowed flag' if exp == 'nottrue' else 'honest quorum'
                ctx.violation({'op': 'CHECK_MULTISIG', 'kind': kind, 'why': why},
                              f'n={n} m={m} keyorder={perm} sigs={seq} allowed={allowed}: expected {exp}, got {got} {r!r} {st}')
            if allowed == 1 and (m == n or first == toks[0]):
                r, st, _ = run(sigpush + keypush + op('CHECK_MULTISIG_VERIFY') + bytes([allowed, m, n]), cache)
                ctx.ran(); ctx.trans(m + n + 1)
                gotv = 'ok' if (r is None and st == []) else 'raise' if r is not None else 'other'
                if (exp == 'true') != (gotv == 'ok') or gotv == 'other':
                    ctx.violation({'op': 'CHECK_MULTISIG_VERIFY', 'kind': 'accepts' if gotv == 'ok' else 'rejects'},
                                  f'n={n} m={m} keyorder={perm} sigs={seq}: expected {exp}, got {gotv} {r!r} {st}')
    ctx.evaluations += cnt - 1


FLAG_BYTES = (None, 0x00, 0x01, 0x02, 0x03, 0x05, 0x80, 0x81, 0xff)
ALLOWED = (0x00, 0x01, 0x02, 0x03, 0x05, 0x7f, 0x81, 0xff)


def flag_sig(seed, who, fb):
    """a signature by `who` that is valid for the message its own flag byte selects (sigfield1/2 present)"""
    key = (seed, 'flag', who, fb)
    if key not in _CACHE:
        cache, f1, f2, seeds = setup(seed)
        msg = (b'' if (fb or 0) & 1 else f1) + (b'' if (fb or 0) & 2 else f2)
        _CACHE[key] = refed.sign(seeds[who], msg) + (b'' if fb is None else bytes([fb]))
    return _CACHE[key]


def flag_mask_fn(ctx, case):
    """every pair of flag bytes on two honest signatures x every allowed-flags operand: true exactly when
    each flag byte is a subset of the operand (C02), else an error or false"""
    n, m, allowed = case
    seed = ctx.seed
    cache, f1, f2, seeds = setup(seed)
    cnt = 0
    for order in (((0, 1), (1, 0)) if n == 2 else ((0,),)):
        keypush = b''.join(push(refed.public_key(seeds[('L', i)])) for i in order)
        for fa, fb in itertools.product(FLAG_BYTES, repeat=2):
            if m == 1 and fb is not None:
                continue
            sigs = [flag_sig(seed, ('L', 0), fa)] + ([flag_sig(seed, ('L', 1), fb)] if m == 2 else [])
            for so in ((0, 1), (1, 0))[:m]:
                cnt += 1
                sigpush = b''.join(push(sigs[i]) for i in so[:m])
                exp = 'true' if all(((f or 0) & ~allowed) == 0 for f in (fa, fb)[:m]) else 'nottrue'
                r, st, _ = run(sigpush + keypush + op('CHECK_MULTISIG') + bytes([allowed, m, n]), cache)
                ctx.ran(); ctx.trans(m + n + 1)
                got = 'raise' if r is not None else ('true' if st == [TRUE] else 'false' if st == [FALSE] else 'other')
                ctx.state(('fm', n, m, allowed, order, fa, fb, so))
                ctx.outcome('%s->%s' % (exp, got))
                if not (got == exp or (exp == 'nottrue' and got in ('false', 'raise'))):
                    ctx.violation({'op': 'CHECK_MULTISIG', 'kind': 'accepts' if got == 'true' else 'rejects',
                                   'why': 'disallowed flag' if exp == 'nottrue' else 'permitted flags'},
                                  f'n={n} m={m} keyorder={order} flag bytes={fa},{fb} sig order={so[:m]} allowed={allowed:#04x}: '
                                  f'expected {exp}, got {got} {r!r} {st}')
    ctx.evaluations += cnt - 1


MALFORMED = {'EMPTY': b'', 'SHORT63': None, 'LONG66': None, 'ZERO64': bytes(64), 'ONE': b'\x01'}


def malformed_fn(ctx, case):
    """signature lists containing empty, short, over-long and all-zero items: never true (an error or false), and in
    particular a malformed item never lowers the number of signatures required"""
    n, m = case
    seed = ctx.seed
    cache, f1, f2, seeds = setup(seed)
    keypush = b''.join(push(refed.public_key(seeds[('L', i)])) for i in range(n))
    good = {('L', i): refed.sign(seeds[('L', i)], f1 + f2) for i in range(n)}
    bad = dict(MALFORMED)
    bad['SHORT63'] = good[('L', 0)][:63]
    bad['LONG66'] = good[('L', 0)] + b'\x00\x00'
    toks = list(good) + list(bad)
    cnt = 0
    for seq in itertools.product(toks, repeat=m):
        if not any(t in bad for t in seq):
            continue
        for allowed in (0, 1):
            cnt += 1
            sigpush = b''.join((push(good[t]) if t in good else (push(bad[t]) if bad[t] else b'\x03\x00')) for t in seq)
            r, st, _ = run(sigpush + keypush + op('CHECK_MULTISIG') + bytes([allowed, m, n]), cache)
            ctx.ran(); ctx.trans(m + n + 1)
            got = 'raise' if r is not None else ('true' if st == [TRUE] else 'false' if st == [FALSE] else 'other')
            ctx.state(('mal', n, m, seq, allowed))
            ctx.outcome('malformed->%s' % got)
            if got not in ('raise', 'false'):
                ctx.violation({'op': 'CHECK_MULTISIG', 'kind': 'accepts' if got == 'true' else 'malformed result', 'why': 'malformed item'},
                              f'n={n} m={m} sigs={seq} allowed={allowed}: got {got} {st}')
    # fewer than m items on the stack (nothing else below them): never true - directly and through the lock builder
    lock = T.make_multisig_lock([refed.public_key(seeds[('L', i)]) for i in range(n)], m, '00')
    for k in range(0, m):
        for order in itertools.permutations(range(n), k):
            cnt += 1
            sigpush = b''.join(push(good[('L', i)]) for i in order)
            r, st, _ = run(sigpush + keypush + op('CHECK_MULTISIG') + bytes([0, m, n]), cache)
            a = auth([sigpush, lock.bytes], cache)
            ctx.ran(2); ctx.trans(k + n + 1)
            got = 'raise' if r is not None else ('true' if st == [TRUE] else 'false' if st == [FALSE] else 'other')
            ctx.state(('short', n, m, order))
            ctx.outcome('short->%s' % got)
            if got == 'true' or a is not False:
                ctx.violation({'op': 'CHECK_MULTISIG', 'kind': 'accepts', 'why': 'fewer than m signatures supplied'},
                              f'n={n} m={m}: {k} signature(s) by {order}: instruction {got}, lock {a!r}')
    ctx.evaluations += max(cnt - 1, 0)


def long_message_fn(ctx, case):
    """the embedder raised the item-size limit and the signed message is longer than the default limit: quorums pass / fail as ever"""
    mlen, limit, m, n = case
    seed = ctx.seed
    _, _, _, seeds = setup(seed)
    why = 'message longer than the default item limit' if mlen >= 0 else 'message over several present sigfields'
    if mlen < 0:
        # all eight sigfields present (-mlen = number of fields, taken from the top: 8 -> 1..8, 2 -> 7..8), signatures made outside the library
        cache = {'sigfield%d' % i: env.sym(seed, 'ms.f8.%d' % i, 3 + i) for i in range(9 + mlen, 9)}
        f1 = b''.join(cache['sigfield%d' % i] for i in range(9 + mlen, 9))
        mlen = len(f1)
    else:
        f1 = (env.sym(seed, 'ms.long', 32) * (mlen // 32 + 1))[:mlen]
        cache = {'sigfield1': f1}
    keys = [refed.public_key(seeds[('L', i)]) for i in range(n)]
    keypush = b''.join(push(k) for k in keys)
    cnt = 0
    for signers in itertools.permutations(range(n), m):
        for spoil in (None, 0):
            cnt += 1
            sigs = [refed.sign(seeds[('L', i)], f1) for i in signers]
            if spoil is not None and sigs:
                sigs[spoil] = refed.sign(seeds[('O', 0)], f1)
            r, st, _ = run(b''.join(push(x) for x in sigs) + keypush + op('CHECK_MULTISIG') + bytes([0, m, n]), cache, stack_max_item_size=limit)
            ctx.ran(); ctx.trans(m + n + 1)
            fits = mlen <= limit
            exp = ('true' if spoil is None or not sigs else 'false') if fits else 'raise'
            got = 'raise' if r is not None else ('true' if st == [TRUE] else 'false' if st == [FALSE] else 'other')
            ctx.state(('long', mlen, limit, m, n, signers, spoil))
            ctx.outcome('long:%s->%s' % (exp, got))
            if got != exp:
                ctx.violation({'op': 'CHECK_MULTISIG', 'kind': 'accepts' if got == 'true' else 'rejects', 'why': why},
                              f'message {mlen} bytes, stack_max_item_size {limit}, {m}-of-{n} signers {signers} spoiled {spoil}: expected {exp}, got {got} {r!r}')
    ctx.evaluations += max(cnt - 1, 0)


def builder_fn(ctx, case):
    """make_multisig_lock + witnesses through run_auth_scripts"""
    n, m, perm = case
    seed = ctx.seed
    cache, f1, f2, seeds = setup(seed)
    keys = [refed.public_key(seeds[('L', i)]) for i in perm]
    cnt = 0
    for allowed in ('01', '00'):
        lock = T.make_multisig_lock(list(keys), m, allowed)
        for seq in itertools.product(tokens(n), repeat=m):
            cnt += 1
            wit = b''.join(push(token_sig(seed, t)) for t in seq)
            exp = expected(seq, n, int(allowed, 16))
            got = auth([wit, lock.bytes], cache)
            ctx.ran(); ctx.trans(m + n + 1)
            ctx.state(('b', n, m, perm, seq, allowed))
            ctx.outcome('auth:%s->%s' % (exp, got))
            if got is not (exp == 'true'):
                ctx.violation({'builder': 'make_multisig_lock', 'kind': 'accepts' if got else 'rejects'},
                              f'n={n} m={m} keyorder={perm} sigs={seq} allowed={allowed}: expected {exp}, got {got}')
        # the same lock written by hand in the other documented spellings (OP_ prefix, upper / lower case names and value prefixes,
        # decimal / hex counts) is the same lock
        kp = ' '.join('push x' + k.hex() for k in keys)
        for spelling in ('%s check_multisig x%s d%d d%d', '%s OP_CHECK_MULTISIG X%s D%d D%d', '%s CHECK_MULTISIG x%s x%02x x%02x',
                         '%s op_check_multisig X%s X%02X X%02X'):
            cnt += 1
            src = spelling % (kp if spelling[3].islower() else kp.upper().replace('PUSH X', 'PUSH x'), allowed, m, n)
            try:
                hand = env.parsing.compile_script(src)
            except BaseException as e:
                hand = repr(e)
            ctx.ran()
            if hand != lock.bytes:
                ctx.violation({'builder': 'make_multisig_lock', 'kind': 'hand-written lock differs', 'spelling': spelling.split(' ')[1]},
                              f'n={n} m={m}: {src[-40:]!r} compiles to {hand if isinstance(hand, str) else hand.hex()[-24:]}, builder {lock.bytes.hex()[-24:]}')
        # witnesses made by the documented builder also unlock
        if m >= 1:
            sf = {'sigfield1': f1, 'sigfield2': f2}
            for combo in itertools.combinations(range(n), m):
                w = b''.join(T.make_single_sig_witness(seeds[('L', i)], sf, '00').bytes for i in combo)
                cnt += 1
                ctx.ran()
                if not auth([w, lock.bytes], cache):
                    ctx.violation({'builder': 'make_multisig_lock', 'kind': 'rejects', 'why': 'builder witnesses'},
                                  f'n={n} m={m} signers={combo} allowed={allowed}')
    # quorum larger than the number of unique keys must be refused
    for bad in ([keys[0]] * 2, keys + [keys[0]]):
        q = len(set(bad)) + 1
        try:
            T.make_multisig_lock(list(bad), q)
            ctx.violation({'builder': 'make_multisig_lock', 'kind': 'accepts', 'why': 'quorum > unique keys'},
                          f'quorum {q} accepted for {len(set(bad))} unique keys')
        except ValueError:
            pass
        cnt += 1
    ctx.evaluations += cnt - 1


def blocks(tier, seed):
    q = tier == 'quick'
    cases = []
    for n in range(1, 6):
        if q and n > 4:
            continue
        if n <= (3 if q else 4):
            perms = list(itertools.permutations(range(n)))
        else:
            ident = tuple(range(n))
            perms = [ident, ident[::-1]] + ([] if q else [ident[i:] + ident[:i] for i in range(1, n)])
            perms = list(dict.fromkeys(perms))
        for m in range(0, n + 1):
            # the largest blocks (m = n at the top n) are run under the identity key order only
            for perm in (perms if not ((q and n == 4 and m == 4) or (not q and n == 5 and m >= 4)) else perms[:1 if m == n else 2]):
                if m == 0:
                    cases.append((n, m, perm, None))
                else:
                    for first in tokens(n):
                        cases.append((n, m, perm, first))
    bcases = [(n, m, perm) for n in range(1, 4) for m in range(0, n + 1)
              for perm in (list(itertools.permutations(range(n))) if not q else [tuple(range(n)), tuple(range(n))[::-1]])]
    bcases = list(dict.fromkeys(bcases))
    # biggest cases first for load balance
    cases.sort(key=lambda c: -(len(tokens(c[0])) ** max(c[1] - 1, 0)))
    fcases = [(n, m, a) for (n, m) in ((1, 1), (2, 1), (2, 2)) for a in ALLOWED]
    mcases = [(n, m) for n in (1, 2, 3) for m in range(1, n + 1)]
    return [
        Block('malformed_items', mcases, malformed_fn, 'n <= 3, every signature sequence containing an empty / 1-byte / 63-byte / 66-byte / '
              'all-zero item', nshards=len(mcases)),
        Block('flag_masks', fcases, flag_mask_fn, 'allowed-flags operand x flag byte on each of <=2 honest signatures x key and '
              'signature orders', nshards=len(fcases)),
        Block('sequences_x_keyorders', cases, case_fn,
              'every ordered token sequence x key order x allowed in {01,00}', nshards=min(len(cases), 256), backstop=7200),
        Block('long_messages_raised_item_limit', [(ml, lim, m, n) for ml, lim in ((1024, 1024), (1025, 1025), (1025, 4096), (2000, 4096), (3000, 2999), (5000, 8192), (-8, 1024), (-2, 1024), (-3, 1024))
                                                  for m, n in ((1, 1), (1, 2), (2, 2), (2, 3))], long_message_fn,
              'signed message of 1024..5000 bytes x raised stack_max_item_size x quorums up to 2-of-3, every signer order, one outsider signature', nshards=24),
        Block('builder_make_multisig_lock', bcases, builder_fn, 'n<=3 through make_multisig_lock + run_auth_scripts',
              nshards=len(bcases)),
    ]


def meta(tier, seed):
    q = tier == 'quick'
    return dict(
        rule='all ordered sequences of m tokens over (2n+8) tokens, m<=n; key orders: all permutations for n<=%d, '
             'identity/reversal%s beyond; allowed flags 01 and 00' % (3 if q else 4, '' if q else '/rotations'),
        states_meaning='distinct (n, m, key order, signature sequence, allowed) inputs; transitions = instructions executed',
        bounds={'n_max': 4 if q else 5, 'full_key_permutations_up_to_n': 3 if q else 4},
        assumptions=['distinct listed keys (the property\'s quantifier); signer validity relation from RFC 8032 reference signatures',
                     'non-permitted flag: error or false accepted, never true'],
    )
