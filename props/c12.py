"""C12 - decompiling always terminates and round-trips compiler output.

Termination is decided by observed progress (a wrapper on Tape.read / move_pointer flags any
backwards move and stops a run that exceeds 4*len+16 reads), never by a clock.  Round trip:
compile_script(join(decompile_script(b))) == b and the listing names exactly the instructions
of the reference disassembly, for every byte string the compiler / the builders produce.
"""
import glob
import itertools
import os

from mc import env, spaces
from mc.run import Block
from ref import refasm
from ref.refasm import Style
from ref.optable import NAMES as OPNAMES, OP, op

P_ = env.parsing
C = env.classes
T = env.tools


class Stuck(BaseException):
    pass


STATE = {'reads': 0, 'bound': None, 'back': None}
_inst = False


def install():
    global _inst
    if _inst:
        return
    orig_read, orig_move = C.Tape.read, C.Tape.move_pointer

    def read(self, size, move_pointer=True):
        b = STATE['bound']
        if b is not None:
            STATE['reads'] += 1
            if STATE['reads'] > b:
                raise Stuck('more than 4*len+16 reads')
        before = self.pointer
        out = orig_read(self, size, move_pointer)
        if b is not None and (self.pointer < before or size < 0):
            STATE['back'] = (before, size, self.pointer)
        return out

    def move_pointer(self, n):
        before = self.pointer
        out = orig_move(self, n)
        if STATE['bound'] is not None and self.pointer < before:
            STATE['back'] = (before, n, self.pointer)
        return out
    C.Tape.read = read
    C.Tape.move_pointer = move_pointer
    _inst = True


def decompile(b):
    """-> ('ok', lines) | ('raise', exc) | ('stuck',) ; plus backwards-read info"""
    install()
    STATE['reads'], STATE['bound'], STATE['back'] = 0, 4 * len(b) + 16, None
    try:
        lines = P_.decompile_script(b)
        res = ('ok', lines)
    except Stuck:
        res = ('stuck',)
    except BaseException as e:
        if isinstance(e, (KeyboardInterrupt, SystemExit, MemoryError)):
            raise
        res = ('raise', e)
    finally:
        STATE['bound'] = None
    return res, STATE['back']


def check_termination(ctx, b, sig):
    res, back = decompile(b)
    ctx.ran()
    ctx.trans()
    ctx.outcome(res[0])
    if back is not None:
        ctx.violation({**sig, 'clause': 'reads backwards', 'op': refasm_first_op(b)},
                      f'input {b.hex()[:120]} (len {len(b)}): pointer {back[0]} --read({back[1]})--> {back[2]}')
    if res[0] == 'stuck':
        ctx.violation({**sig, 'clause': 'does not terminate', 'op': refasm_first_op(b)}, f'input {b.hex()[:120]} (len {len(b)})')
    if res[0] == 'ok' and (type(res[1]) is not list or not all(type(x) is str for x in res[1])):
        ctx.violation({**sig, 'clause': 'returns a list of str'}, f'input {b.hex()[:120]}')
    return res


def refasm_first_op(b):
    from ref.optable import NAME
    return NAME.get(b[0], 'NOP') if b else 'EMPTY'


def check_roundtrip(ctx, b, sig):
    res = check_termination(ctx, b, sig)
    if res[0] != 'ok':
        if res[0] == 'raise':
            ctx.violation({**sig, 'clause': 'decompiler rejects compiler/builder output'}, f'bytes {b.hex()[:200]}: {res[1]!r}')
        return
    lines = res[1]
    try:
        ref = refasm.disassemble(b)
    except refasm.DisError:
        ctx.unspec('reference cannot disassemble')
        return
    norm = {'IF_ELSE': 'IF', 'TRY_EXCEPT': 'TRY'}
    want = [norm.get(x, x) for x in refasm.flat_names(ref)]
    got = [norm.get(x, x) for x in refasm.listing_names(lines)]
    if got != want:
        ctx.violation({**sig, 'clause': 'listing names the instructions of the bytecode'},
                      f'bytes {b.hex()[:200]}: listing {got[:12]} reference {want[:12]}')
    try:
        back = P_.compile_script('\n'.join(lines))
    except BaseException as e:
        if isinstance(e, (KeyboardInterrupt, SystemExit, MemoryError)):
            raise
        first = next((n for n in want), '?')
        ctx.violation({**sig, 'clause': 'listing does not recompile', 'op': culprit(ref)},
                      f'bytes {b.hex()[:200]} listing {lines[:6]}: {e!r}')
        return
    ctx.ran()
    if back != b:
        ctx.violation({**sig, 'clause': 'recompiled bytes differ', 'op': culprit(ref, b, back)},
                      f'bytes {b.hex()[:200]} -> {lines[:6]} -> {back.hex()[:200]}')


def culprit(ref, b=None, back=None):
    """name of the first instruction whose re-encoding differs (best effort, for the finding signature)"""
    try:
        flat = []

        def walk(l):
            for name, operand, subs in l:
                flat.append((name, operand))
                for s in subs:
                    walk(s)
        walk(ref)
        for name, operand in flat:
            if name.startswith('NOP') and operand and operand[0] >= 128:
                return 'NOP count >= 128'
            if name in ('DIV_INT', 'MOD_INT') and operand != refasm.enc_int(int.from_bytes(operand, 'big', signed=True)) if operand else False:
                return name + ' non-minimal operand'
            if name == 'PUSH2' and len(operand) >= 32768:
                return 'PUSH2 >= 32768'
        return 'other'
    except Exception:
        return '?'


# ---------------------------------------------------------------- termination blocks
TAILS = [0x00, 0x01, 0x02, 0x03, 0x7f, 0x80, 0xfe, 0xff]


def term_prefix(ctx, first):
    n = 0
    check_termination(ctx, bytes([first]), {'family': 'termination len<=3'})
    for second in range(256):
        b2 = bytes([first, second])
        n += 1
        ctx.state((b2,))
        check_termination(ctx, b2, {'family': 'termination len<=3'})
        thirds = range(256) if (ctx.tier == 'thorough') else (TAILS if second in TAILS else ())
        for third in thirds:
            n += 1
            check_termination(ctx, b2 + bytes([third]), {'family': 'termination len<=3'})
    ctx.state(('len3 block', first))
    ctx.evaluations += n


LENS = [0, 1, 127, 128, 255, 256, 32767, 32768, 65534, 65535]


def structured_inputs():
    """instructions with a length operand x declared length x actual payload, nested in block constructs"""
    base = []
    for ln in LENS:
        for actual in ('exact', 'short', 'long', 'empty'):
            n = {'exact': ln, 'short': max(ln - 1, 0), 'long': ln + 1, 'empty': 0}[actual]
            pay = b'\x01' * n
            if ln < 256:
                for nm in ('PUSH1', 'READ_CACHE', 'READ_CACHE_SIZE', 'DIV_INT', 'MOD_INT', 'SET_FLAG', 'UNSET_FLAG', 'GET_VALUE'):
                    base.append(op(nm) + bytes([ln]) + pay)
                base.append(op('WRITE_CACHE') + bytes([ln]) + pay + b'\x01')
            l2 = ln.to_bytes(2, 'big')
            base.append(op('PUSH2') + l2 + pay)
            base.append(op('IF') + l2 + pay)
            base.append(op('LOOP') + l2 + pay)
            base.append(op('DEF') + b'\x00' + l2 + pay)
            base.append(op('IF_ELSE') + l2 + pay + b'\x00\x00')
            base.append(op('IF_ELSE') + b'\x00\x00' + l2 + pay)
            base.append(op('TRY_EXCEPT') + l2 + pay + b'\x00\x00')
            base.append(op('TRY_EXCEPT') + b'\x00\x01\x01' + l2 + pay)
    return base


def blk(b):
    return len(b).to_bytes(2, 'big') + b if len(b) < 65536 else None


def nestings(maxdepth):
    kinds = ('IF', 'LOOP', 'DEF', 'IFELSE1', 'IFELSE2', 'TRY1', 'TRY2')
    for d in range(0, maxdepth + 1):
        yield from itertools.product(kinds, repeat=d)


def wrap(kinds, b):
    for k in reversed(kinds):
        bb = blk(b)
        if bb is None:
            return None
        if k == 'IF':
            b = op('IF') + bb
        elif k == 'LOOP':
            b = op('LOOP') + bb
        elif k == 'DEF':
            b = op('DEF') + b'\x07' + bb
        elif k == 'IFELSE1':
            b = op('IF_ELSE') + bb + b'\x00\x00'
        elif k == 'IFELSE2':
            b = op('IF_ELSE') + b'\x00\x01\x01' + bb
        elif k == 'TRY1':
            b = op('TRY_EXCEPT') + bb + b'\x00\x00'
        elif k == 'TRY2':
            b = op('TRY_EXCEPT') + b'\x00\x00' + bb
    return b


def structured_case(ctx, kinds):
    n = 0
    for b in structured_inputs():
        w = wrap(kinds, b)
        if w is None:
            continue
        n += 1
        ctx.state((len(w), hash(w)))
        check_termination(ctx, b'\x01' + w + b'\x00', {'family': 'termination structured'})
    ctx.evaluations += max(n - 1, 0)


def malformed_case(ctx, case):
    p, kind, pos, code = case
    ctx.state((code,))
    check_termination(ctx, code, {'family': 'termination malformed programs'})


# ---------------------------------------------------------------- round-trip blocks
def rt_instr(ctx, name):
    from props.c11 import operand_choices, SENT_A, SENT_B
    n = 0
    for ops in operand_choices(name):
        prog = [SENT_A, ('I', name, ops), SENT_B]
        try:
            b = P_.compile_script(refasm.source(prog, Style()))
        except BaseException:
            continue
        n += 1
        ctx.state((b,))
        check_roundtrip(ctx, b, {'family': 'round trip: instructions'})
    # the same fixed-width operands spelled in hex (the listing may spell them differently from the source that made the bytes)
    if refasm.kind(name) in ('byte1', 'u8u8', 'ms'):
        width = {'byte1': 1, 'u8u8': 2, 'ms': 3}[refasm.kind(name)]
        for tup in itertools.product((0, 1, 2, 127, 128, 255), repeat=width):
            prog = [SENT_A, ('I', name, [('x', bytes([v])) for v in tup]), SENT_B]
            try:
                b = P_.compile_script(refasm.source(prog, Style()))
            except BaseException:
                continue
            n += 1
            ctx.state((b,))
            check_roundtrip(ctx, b, {'family': 'round trip: instructions', 'operands': 'hex'})
    # the empty hex operand (the compiler reads it as 00 for one-byte operands): whatever bytes come out must list and recompile
    if refasm.kind(name) == 'byte1':
        for src in ('%s x' % name, 'true OP_%s x false' % name, 'true if { OP_%s x } false' % name):
            try:
                b = P_.compile_script(src)
            except BaseException:
                continue
            n += 1
            ctx.state((b,))
            check_roundtrip(ctx, b, {'family': 'round trip: instructions', 'operands': 'empty hex'})
    ctx.evaluations += max(n - 1, 0)


def rt_push(ctx, v):
    prog = [('PUSH', v)]
    try:
        b = P_.compile_script(refasm.source(prog, Style()))
    except BaseException:
        return
    ctx.state((len(b), hash(b)))
    check_roundtrip(ctx, b, {'family': 'round trip: push sizes'})
    for kinds in (('IF',), ('DEF', 'TRY1'), ('LOOP', 'IFELSE2', 'IF')):
        w = wrap(kinds, b)
        if w is not None:
            check_roundtrip(ctx, w, {'family': 'round trip: push sizes'})


EXPLICIT_PUSH_SRC = ('OP_PUSH1 x', 'OP_PUSH2 x', 'OP_PUSH1 d0 x', 'OP_PUSH2 d0 x', 'OP_PUSH2 xaa', 'OP_PUSH2 d1 xaa', 'OP_PUSH1 xaa',
                     'OP_PUSH0 x00', 'OP_PUSH0 d-1', 'OP_PUSH1 s""', 'OP_PUSH s""', 'OP_PUSH x', 'OP_PUSH1 x OP_PUSH2 x OP_PUSH1 x')


def rt_explicit_push(ctx, src):
    """explicitly spelled pushes, among them the zero-length and the non-minimal ones, bare and in every kind of body"""
    try:
        b = P_.compile_script(src + ' OP_TRUE')
    except BaseException:
        ctx.count('source rejected by the compiler (no round-trip claim)')
        return
    ctx.state((b,))
    check_roundtrip(ctx, b, {'family': 'round trip: explicit pushes'})
    for kinds in (('IF',), ('DEF', 'TRY1'), ('LOOP', 'IFELSE2', 'IF')):
        w = wrap(kinds, b)
        if w is not None:
            check_roundtrip(ctx, w, {'family': 'round trip: explicit pushes'})


def rt_nop(ctx, code):
    n = 0
    for cnt in range(256):
        b = bytes([0x01, code, cnt, 0x00])
        n += 1
        ctx.state((b,))
        check_roundtrip(ctx, b, {'family': 'round trip: NOP codes'})
    ctx.evaluations += n - 1


def rt_ctrl(ctx, p):
    from props.c11 import lang, SENT_B
    prog = lang(p) + [SENT_B]
    try:
        b = P_.compile_script(refasm.source(prog, Style(prefix='', case='lower')))
    except BaseException:
        ctx.count('source rejected by the compiler (no round-trip claim)')
        return
    ctx.state((b,))
    check_roundtrip(ctx, b, {'family': 'round trip: control programs'})
    # the documented encoding of the same program (what the compiler produces, property C11): checked as well, so that
    # a compiler that mis-assembles a source cannot hide a listing that does not reproduce its bytes
    try:
        b2 = refasm.encode_prog(prog)
    except BaseException:
        return
    if b2 != b:
        ctx.state((b2,))
        check_roundtrip(ctx, b2, {'family': 'round trip: control programs'})


DEEP_KINDS = ('IF', 'LOOP', 'IFELSE1', 'IFELSE2', 'TRY1', 'TRY2', 'DEF+IF', 'cycle')


def rt_deep(ctx, case):
    """one block kind nested d deep (DEF can only be outermost; 'cycle' rotates through the kinds) around one instruction"""
    kind, d = case
    base = ('IF', 'LOOP', 'IFELSE1', 'IFELSE2', 'TRY1', 'TRY2')
    if kind == 'DEF+IF':
        kinds = ('DEF',) + ('IF',) * (d - 1)
    elif kind == 'cycle':
        kinds = tuple(base[i % len(base)] for i in range(d))
    else:
        kinds = (kind,) * d
    b = wrap(kinds, b'\x01')
    ctx.state((kind, d))
    check_roundtrip(ctx, b'\x00' + b + b'\x01', {'family': 'round trip: deep nesting', 'kind': kind})


MACRO_BODIES = {'top': '%s', 'IF': 'true if { %s }', 'ELSE': 'true if { } else { %s }', 'LOOP': 'false loop { %s }',
                'TRY': 'try { %s } except { }', 'EXCEPT': 'try { } except { %s }', 'DEF': 'def 0 { %s }',
                'DEF>IF': 'def 0 { true if { %s } }', 'DEF>TRY': 'def 0 { try { %s } except { } }', 'hoisted condition': 'if ( %s ) { true }'}
MACRO_TEXTS = {'plain': 'true', 'push': 'push x0102', 'IF': 'true if { false }', 'LOOP': 'false loop { true }',
               'TRY': 'try { true } except { false }', 'DEF': 'def 1 { true }', 'IF>DEF': 'true if { def 1 { true } }',
               'comptime': 'push ~ { true }', 'variable': '@= v [ x01 ]', 'two statements': 'true def 1 { true }',
               'call': 'call d1', 'inner macro': '!n [ ]'}


def def_directly_in_def(b):
    try:
        ref = refasm.disassemble(b)
    except refasm.DisError:
        return False

    def walk(l):
        for name, operand, subs in l:
            if name == 'DEF' and any(n2 == 'DEF' for sub in subs for n2, _, _ in sub):
                return True
            if any(walk(sub) for sub in subs):
                return True
        return False
    return walk(ref)


def rt_macro(ctx, case):
    """compiler output for sources that put a statement into a body through a macro (and the same statement written
    directly): whatever the compiler accepts must survive decompile -> compile"""
    bk, mk = case
    for via in ('macro', 'direct'):
        text = MACRO_TEXTS[mk]
        if via == 'macro':
            src = '!= n [ ] { def 1 { true } } != m [ ] { %s } ' % text + MACRO_BODIES[bk] % '!m [ ]'
        else:
            src = '!= n [ ] { def 1 { true } } ' + MACRO_BODIES[bk] % text
        try:
            b = P_.compile_script(src)
        except BaseException as e:
            if isinstance(e, (KeyboardInterrupt, SystemExit, MemoryError)):
                raise
            ctx.count('source rejected by the compiler (no round-trip claim)')
            continue
        ctx.state((bk, mk, via))
        sig = {'family': 'round trip: statements placed by macros', 'body': bk, 'statement': mk, 'via': via}
        if def_directly_in_def(b):
            # one defect, however the macro call is spelled: the compiler's "no DEF within a DEF body" rule looks at written symbols only
            sig = {'family': 'round trip: statements placed by macros', 'shape': 'DEF placed directly in a DEF body by a macro call'}
        check_roundtrip(ctx, b, sig)
    ctx.evaluations += 1


def rt_def_handle(ctx, h):
    """DEF with every handle, from every source spelling the compiler takes"""
    n = 0
    for sp in ('x%02x' % h, 'd%d' % h, '%d' % h):
        for form in ('def %s { true }', 'true if { def %s { false } } call x' + '%02x' % h):
            try:
                b = P_.compile_script(form % sp)
            except BaseException:
                ctx.count('source rejected by the compiler (no round-trip claim)')
                continue
            n += 1
            ctx.state((b,))
            check_roundtrip(ctx, b, {'family': 'round trip: DEF handles'})
    ctx.evaluations += max(n - 1, 0)


BLOCK_SIZE_KINDS = ('IF', 'LOOP', 'DEF', 'IFELSE1', 'IFELSE2', 'TRY1', 'TRY2')


def rt_block_size(ctx, case):
    """a block body of exactly n bytes (one big push, or many small instructions) in each block kind, n on both sides of 2^8, 2^15 and
    at the largest length the two-byte field holds: the documented encoding, listed and recompiled"""
    kind, n, filling = case
    if filling == 'one push':
        body = (op('PUSH2') + (n - 3).to_bytes(2, 'big') + b'\x5a' * (n - 3)) if n - 3 > 255 else (op('PUSH1') + bytes([n - 2]) + b'\x5a' * (n - 2)) if n >= 2 else op('TRUE') * n
    else:
        body = op('TRUE') * n
    b = wrap((kind,), body)
    ctx.state((kind, n, filling))
    if b is None:
        return
    check_roundtrip(ctx, b'\x00' + b + b'\x01', {'family': 'round trip: block sizes', 'kind': kind})


def rt_vector(ctx, path):
    b = bytes.fromhex(open(path).read().strip())
    ctx.state((path,))
    check_roundtrip(ctx, b, {'family': 'round trip: repository vectors', 'vector': os.path.basename(path)})


def builder_corpus(seed):
    """lock / witness bytes from every builder over a small alphabet (regenerated here, deterministic)"""
    from ref import refed
    env.Clock.now = 1_700_000_000
    ks = [env.sym(seed, 'c12.K%d' % i) for i in range(3)]
    pk = [refed.public_key(k) for k in ks]
    sf = {'sigfield1': b'field one', 'sigfield2': b'\x02' * 40}
    S = T.Script.from_src
    out = []
    for fl in ('00', '01', '80', 'fe'):
        out += [T.make_single_sig_lock(pk[0], fl), T.make_single_sig_lock2(pk[0], fl), T.make_single_sig_witness(ks[0], sf, fl),
                T.make_single_sig_witness2(ks[0], sf, fl), T.make_multisig_lock(pk, 2, fl), T.make_graftroot_lock(pk[0], fl),
                T.make_graftroot_witness_keyspend(ks[0], sf, fl), T.make_taproot_lock(pk[0], S('true'), sigflags=fl),
                T.make_nonnative_taproot_lock(pk[0], S('true'), sigflags=fl), T.make_graftap_lock(pk[0], fl),
                T.make_delegate_key_lock(pk[0], fl), T.make_delegate_key_chain_lock(pk[0], fl),
                T.make_htlc_sha256_lock(pk[0], pk[1], b'preimage', sigflags=fl), T.make_htlc_shake256_lock(pk[0], pk[1], b'preimage', sigflags=fl),
                T.make_htlc2_sha256_lock(pk[0], pk[1], b'preimage', sigflags=fl), T.make_htlc2_shake256_lock(pk[0], pk[1], b'preimage', sigflags=fl),
                T.make_ptlc_lock(pk[0], pk[1], sigflags=fl), T.make_ptlc_lock(pk[0], pk[1], pk[2], sigflags=fl),
                T.make_htlc_witness(ks[0], b'preimage', sf, fl), T.make_htlc2_witness(ks[0], b'preimage', sf, fl),
                T.make_ptlc_witness(ks[0], sf, sigflags=fl), T.make_ptlc_refund_witness(ks[1], sf, fl),
                T.make_adapter_lock_pub(pk[0], pk[1], fl), *T.make_adapter_locks_pub(pk[0], pk[1], fl),
                *T.make_adapter_locks_prv(pk[0], ks[1], fl), T.make_adapter_witness(ks[0], pk[1], sf, fl)]
        if fl != 'ff':
            out.append(T.make_taproot_witness_keyspend(ks[0], sf, S('true'), sigflags=fl))
    out += [T.make_graftroot_witness_surrogate(ks[0], 'true'), T.make_taproot_witness_scriptspend(pk[0], S('true')),
            T.make_graftap_witness_scriptspend(ks[0], S('true')), T.make_scripthash_lock(S('push d1 push d2 add_ints d2')),
            T.make_scripthash_witness(S('push d1')), T.make_adapter_decrypt(ks[1]),
            T.make_timestamp_after_lock(1_700_000_000), T.make_timestamp_before_lock(5, True), T.make_timestamp_between_lock(127, 128)]
    cert = T.make_delegate_key_cert(ks[0], pk[1], 0, 2 ** 31 - 1)
    cert2 = T.make_delegate_key_cert(ks[1], pk[2], 100, 200, False)
    out += [T.make_delegate_key_witness(ks[1], cert, sf), T.make_delegate_key_chain_witness(ks[2], [cert2, cert], sf)]
    for n in (1, 2, 3, 5, 8):
        leaves = ['push d%d' % i for i in range(n)]
        lock, unl = T.make_merklized_script_prioritized(list(leaves))
        out += [lock] + unl
        lock, unl = T.make_merklized_script_balanced(list(leaves))
        out += [lock] + unl
    res = T.setup_amhl(b'seed', pk, refund_pubkeys={pk[0]: pk[1]})
    for k, v in res.items():
        if k != 'key':
            out += [v[0], v[1]]
    return [bytes(s.bytes) for s in out]


def rt_builder(ctx, idx):
    corpus = builder_corpus(ctx.seed)
    b = corpus[idx]
    ctx.state((b,))
    check_roundtrip(ctx, b, {'family': 'round trip: builder outputs'})


def blocks(tier, seed):
    from props.c11 import push_values
    q = tier == 'quick'
    plain = [nm for nm in OPNAMES if refasm.kind(nm) != 'block']
    vectors = sorted(glob.glob(env.SRC + '/tests/vectors/*.hex'))
    ncorp = len(builder_corpus(seed))
    pv = push_values() + [('x', b'\x5a' * n) for n in (127, 128, 32767, 32768, 65534)]
    return [
        Block('termination_all_len<=3', list(range(256)), term_prefix,
              'every byte string of length <= 3' if not q else 'every byte string of length <= 2 and length 3 with boundary tails', nshards=256),
        Block('termination_structured_lengths', list(nestings(2 if q else 3)), structured_case,
              'length-operand instructions x declared length x payload x nesting depth <= %d' % (2 if q else 3), nshards=64),
        Block('termination_malformed_programs', lambda s, n: spaces.malformed(2 if q else 3, 'full', s, n), malformed_case,
              'every byte-prefix and single-byte perturbation of every control program with <= %d nodes' % (2 if q else 3), nshards=64),
        Block('roundtrip_instructions', plain, rt_instr, 'every instruction x operand boundary values (compiler output)', nshards=len(plain)),
        Block('roundtrip_push_sizes', pv, rt_push, 'pushes on both sides of 2^7, 2^8, 2^15, 2^16, bare and nested', nshards=32),
        Block('roundtrip_explicit_pushes', list(EXPLICIT_PUSH_SRC), rt_explicit_push,
              'explicit PUSH0 / PUSH1 / PUSH2 spellings incl. zero-length and non-minimal operands, bare and nested', nshards=len(EXPLICIT_PUSH_SRC)),
        Block('roundtrip_nop_codes', list(range(92, 256)), rt_nop, 'every NOP code x every count byte', nshards=32),
        Block('roundtrip_control_programs', lambda s, n: spaces.progs_upto(3 if q else 4, 'full', s, n), rt_ctrl,
              'every control program of the C11 space', nshards=64),
        Block('roundtrip_block_sizes', [(k, n, f) for k in BLOCK_SIZE_KINDS for n in (0, 1, 255, 256, 257, 32767, 32768, 65534, 65535)
                                        for f in (('one push', 'small instructions') if n in (257, 65535) or not q else ('one push',))], rt_block_size,
              'every block kind x body lengths 0, 1, 255..257, 2^15-1, 2^15, 65534, 65535 (one big push / single-byte instructions)', nshards=32),
        Block('roundtrip_def_handles', list(range(256)), rt_def_handle, 'DEF 0..255 from the x / d / plain spellings, bare and inside IF', nshards=32),
        Block('roundtrip_deep_nesting', [(k, d) for k in DEEP_KINDS for d in range(1, (130 if q else 200) + 1)], rt_deep,
              'each block kind (and a rotation of all kinds, and DEF around IFs) nested 1..%d deep around one instruction' % (130 if q else 200), nshards=32),
        Block('roundtrip_statements_placed_by_macros', [(b, m) for b in MACRO_BODIES for m in MACRO_TEXTS], rt_macro,
              '%d body kinds x %d statements, written directly and through a macro call' % (len(MACRO_BODIES), len(MACRO_TEXTS)), nshards=16),
        Block('roundtrip_vectors', vectors, rt_vector, 'tests/vectors/*.hex', nshards=16),
        Block('roundtrip_builder_outputs', list(range(ncorp)), rt_builder, 'every lock / witness builder output over a small alphabet', nshards=32),
    ]


def meta(tier, seed):
    q = tier == 'quick'
    return dict(
        rule='termination: all byte strings up to the length bound plus the structured length family, progress-counted; round trip: '
             'compile(decompile(b)) == b and listing names == reference disassembly for all enumerated compiler / builder outputs',
        states_meaning='distinct byte strings decompiled; transitions = decompilations',
        bounds={'exhaustive_length': 2 if q else 3, 'nesting_depth': 2 if q else 3, 'declared_lengths': LENS},
        assumptions=['the "random / mutated strings up to 70 KiB" clause is replaced by the complete structured length family',
                     'termination horizon = 4*len+16 tape reads'],
    )
