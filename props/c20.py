"""C20 - unassigned opcodes are soft-fork-safe no-ops.

(A) every NOP code x every count byte x stack depths: one instruction, judged by "count top items
    removed, nothing else changed; negative count or count > depth raises".
(B) compile / decompile of NOPn for every code and count byte.
(C) soft-fork compatibility: for every free code a fork op from a family of predicates over the
    popped items is installed with add_soft_fork; every control program containing the forked
    instruction is run on the plain VM (before installation) and on the upgraded VM.
"""
import copy

from mc import env, spaces
from mc.run import Block
from ref.optable import op, push

F, P_, T = env.functions, env.parsing, env.tools
SEE = env.errors.ScriptExecutionError
DEPTHS = [0, 1, 2, 3, 4, 5, 126, 127, 128]


def run(script, cache=None):
    try:
        tape, stack, c = F.run_script(script, dict(cache or {}))
        return None, stack.list(), c, tape
    except BaseException as e:
        if isinstance(e, (KeyboardInterrupt, SystemExit, MemoryError)):
            raise
        return e, None, None, None


# ---------------------------------------------------------------- (A)
def nop_steps(ctx, code):
    n = 0
    cache0 = {b'k': [b'\x01'], 'sigfield1': b'abc'}
    for depth, variety in [(d, v) for d in DEPTHS for v in (0, 1, 2)]:
        if variety and depth > 5:
            continue
        items = [bytes([0x10 + (i % 200)]) + bytes([i // 200]) for i in range(depth)]
        if variety == 1:      # every item empty
            items = [b''] * depth
        elif variety == 2:    # mixed: empty, one byte, long
            items = [(b'', b'\x00', b'\xab' * 300)[i % 3] for i in range(depth)]
        pre = b''.join((push(it) if it else b'\x03\x00') for it in items)
        for cnt in (range(256) if not variety else list(range(8)) + [127, 128, 255]):
            n += 1
            script = pre + bytes([code, cnt]) + b'\x02\xee'      # marker push after the NOP: pointer advanced by exactly 2
            r, st, c, tape = run(script, cache0)
            ctx.ran()
            ctx.trans()
            signed = cnt - 256 if cnt >= 128 else cnt
            ok_expected = 0 <= signed <= depth
            ctx.outcome('ok' if r is None else 'raise')
            if ok_expected:
                want = items[:depth - signed] + [b'\xee']
                if r is not None:
                    ctx.violation({'block': 'A', 'clause': 'valid count must not raise'}, f'code {code} count {cnt} depth {depth}: {r!r}')
                elif st != want:
                    ctx.violation({'block': 'A', 'clause': 'removes exactly count top items and continues'},
                                  f'code {code} count {cnt} depth {depth}: stack {[x.hex() for x in st][-6:]} want {[x.hex() for x in want][-6:]}')
                else:
                    cb = {k: v for k, v in c.items() if type(k) is bytes}
                    if cb != {b'k': [b'\x01']} or c.get('sigfield1') != b'abc':
                        ctx.violation({'block': 'A', 'clause': 'no other effect (cache)'}, f'code {code} count {cnt}: {c!r}')
            else:
                if r is None:
                    ctx.violation({'block': 'A', 'clause': 'negative count or count > depth must raise'},
                                  f'code {code} count {cnt} depth {depth}: finished with {len(st)} items')
    ctx.state(('A', code))
    ctx.evaluations += n - 1


# ---------------------------------------------------------------- (B)
# statements whose parsing looks ahead at the next symbol (optional size argument / value forms): a NOPn (or forked
# name) right after them must still start a new statement
PRE = ('OP_PUSH1 x0102', 'OP_PUSH2 x0102', 'OP_PUSH x0102', 'OP_PUSH d7', 'OP_PUSH0 d7', 'OP_PUSH1 d2 x0102', 'OP_PUSH2 d2 x0102',
       'OP_PUSH s"ab"', 'push1 x0102', 'push2 x0102', 'OP_TRUE', 'OP_DIV_INT d2', 'OP_SWAP d0 d1', '@= v [ d1 ]', '@v')


def nop_compile(ctx, code):
    n = 0
    name = 'NOP%d' % code
    for pre in PRE:
        try:
            pre_b = P_.compile_script(pre)
        except BaseException as e:
            raise AssertionError('context %r does not compile: %r' % (pre, e))
        for cnt, operand in ((0, 'd0'), (1, 'd1'), (128, 'd-128'), (255, 'xff')):
            for nm in (name, name.lower()):
                n += 1
                src = '%s %s %s OP_FALSE' % (pre, nm, operand)
                try:
                    got = P_.compile_script(src)
                except BaseException as e:
                    ctx.violation({'block': 'B', 'clause': 'NOPn compiles', 'after': pre.split(' ')[0]}, f'{src!r}: {e!r}')
                    continue
                ctx.ran()
                if got != pre_b + bytes([code, cnt]) + b'\x00':
                    ctx.violation({'block': 'B', 'clause': 'NOPn compiles to [n, c]', 'after': pre.split(' ')[0]},
                                  f'{src!r}: {got.hex()} want {(pre_b + bytes([code, cnt]) + bytes(1)).hex()}')
    for cnt in range(256):
        want = bytes([code, cnt])
        forms = ['%s x%02x' % (name, cnt), '%s x%02X' % (name.lower(), cnt)]
        signed = cnt - 256 if cnt >= 128 else cnt
        forms.append('%s d%d' % (name, signed))
        for src in forms:
            n += 1
            try:
                got = P_.compile_script(src)
            except BaseException as e:
                ctx.violation({'block': 'B', 'clause': 'NOPn compiles'}, f'{src!r}: {e!r}')
                continue
            ctx.ran()
            if got != want:
                ctx.violation({'block': 'B', 'clause': 'NOPn compiles to [n, c]'}, f'{src!r}: {got.hex()} want {want.hex()}')
        try:
            lines = P_.decompile_script(want)
            back = P_.compile_script('\n'.join(lines))
        except BaseException as e:
            ctx.violation({'block': 'B', 'clause': 'NOPn decompiles and recompiles', 'count': '>=128' if cnt >= 128 else '<128'},
                          f'{want.hex()}: {e!r}')
            continue
        ctx.ran(2)
        ctx.trans(2)
        if back != want or not any(name in ln.upper().split() for ln in lines):
            ctx.violation({'block': 'B', 'clause': 'decompiles as NOPn and recompiles to the same bytes'},
                          f'{want.hex()} -> {lines} -> {back.hex()}')
    ctx.state(('B', code))
    ctx.evaluations += n - 1


# ---------------------------------------------------------------- (C)
class Refuse(BaseException):
    pass


def make_fork_op(pred):
    """an op that only inspects and removes `count` items and may raise"""
    def fork_op(tape, stack, cache):
        cnt = tape.read(1)[0]
        cnt = cnt - 256 if cnt >= 128 else cnt
        if cnt < 0:
            raise SEE('negative count')
        items = [stack.get() for _ in range(cnt)]
        if pred == 'never':
            return
        if pred == 'always':
            raise SEE('fork op refuses')
        if pred == 'top==ff' and not (items and items[0] == b'\xff'):
            raise SEE('fork op refuses')
        if pred == 'all-nonzero' and not all(any(i) for i in items):
            raise SEE('fork op refuses')
        if pred == 'count>=2' and cnt < 2:
            raise SEE('fork op refuses')
    return fork_op


PREDS = ('never', 'always', 'top==ff', 'all-nonzero', 'count>=2')
REG = ('opcodes', 'nopcodes', 'opcodes_inverse', 'nopcodes_inverse', 'opcode_aliases')


def snapshot():
    return {n: dict(getattr(F, n)) for n in REG}, dict(P_.additional_opcodes)


def restore(snap):
    regs, add = snap
    for n in REG:
        d = getattr(F, n)
        d.clear()
        d.update(regs[n])
    P_.additional_opcodes.clear()
    P_.additional_opcodes.update(add)


def fork_scripts(maxnodes, code):
    """every control program with <= maxnodes nodes containing the forked instruction (count 0,1,2)"""
    for p in spaces.progs_upto(maxnodes, 'fork'):
        flat = repr(p)
        if 'FORK' not in flat:
            continue
        yield p


def in_try(p, inside=False):
    for s in p:
        if s[0].startswith('FORK') and inside:
            return True
        if s[0] == 'TRY':
            if in_try(s[1], True) or in_try(s[2], inside):
                return True
        else:
            for sub in s[1:]:
                if isinstance(sub, tuple) and in_try(sub, inside):
                    return True
    return False


class ForkRender(spaces.Render):
    def __init__(self, code):
        super().__init__()
        self.code = code

    def stmt(self, s):
        if s[0].startswith('FORK'):
            return bytes([self.code, int(s[0][4:])])
        return super().stmt(s)


WITNESSES = [b'', push(b'\xff'), push(b'\x00') + push(b'\xff'), push(b'\xff') + push(b'\x01')]


def fork_case(ctx, case):
    code, pred, maxnodes = case
    name = 'OP_FORK%d' % code
    aliases = ['FORK%d' % code, 'FK%d' % code, 'OP_FKA%d' % code]
    progs = list(fork_scripts(maxnodes, code))
    # plain VM first (nothing installed)
    plain = {}
    for p in progs:
        sb = ForkRender(code).prog(p)
        for wi, w in enumerate(WITNESSES):
            r, st, c, _ = run(w + sb)
            try:
                a = F.run_auth_scripts([w, sb + b'\x01']) if w else F.run_auth_scripts([sb + b'\x01'])
            except BaseException as e:
                a = e
            plain[(p, wi)] = (r is None, st, a)
    plain_src = {}
    for cnt in (0, 1, 2):
        plain_src[cnt] = P_.compile_script('true NOP%d d%d false' % (code, cnt))
    BODY_SRC = (('DEF', 'def 0 { %s d%d }'), ('IF', 'if { %s d%d }'), ('LOOP', 'loop { %s d%d }'), ('TRY', 'try { %s d%d }'),
                ('ELSE', 'if { } else { %s d%d }'), ('EXCEPT', 'try { } except { %s d%d }'))
    plain_body = {(kind, cnt): P_.compile_script(src % ('NOP%d' % code, cnt)) for kind, src in BODY_SRC for cnt in (0, 1, 2)}
    snap = snapshot()
    n = 0
    try:
        # registrations that are refused leave the code an ordinary NOP
        for bad in ((code, 'FORK_WITHOUT_PREFIX%d' % code, make_fork_op(pred), []), (code, name, 'not callable', []),
                    (code, 'OP_BAD NAME', make_fork_op(pred), []), (code, name, make_fork_op(pred), ['bad alias!'])):
            n += 1
            try:
                T.add_soft_fork(*bad)
                refused = False
            except BaseException:
                refused = True
            if refused:
                try:
                    r, st, c, _ = run(b'\x01\x01' + bytes([code, 1]))
                    ok = r is None and st == [b'\xff'] and P_.compile_script('NOP%d d1' % code) == bytes([code, 1]) and \
                        any(('NOP%d' % code) in ln for ln in P_.decompile_script(bytes([code, 1])))
                except BaseException as e:
                    ok = False
                if not ok:
                    ctx.violation({'block': 'C', 'clause': 'a refused registration leaves the code an ordinary NOP'},
                                  f'code {code} after add_soft_fork{tuple(type(x).__name__ if callable(x) else x for x in bad)!r}')
                    restore(snap)
            else:
                restore(snap)
        try:
            T.add_soft_fork(code, name, make_fork_op(pred), aliases)
        except BaseException as e:
            ctx.violation({'block': 'C', 'clause': 'add_soft_fork installs at a free code'}, f'code {code}: {e!r}')
            return
        # count bytes 0..127 (the range both the NOPn form and the fork's own handler can spell) in both spellings (d<n> decimal, x<hh> hex)
        # compile to the bytes the plain VM gives for NOPn
        for cb in (0, 1, 9, 10, 11, 15, 16, 17, 99, 100, 127):
            for sp in ('d%d' % cb, 'x%02x' % cb):
                for nm in (name, aliases[0].lower()):
                    n += 1
                    try:
                        got = P_.compile_script('true %s %s false' % (nm, sp))
                    except BaseException as e:
                        got = repr(e)
                    want_b = b'\x01' + bytes([code, cb]) + b'\x00'
                    if got != want_b:
                        ctx.violation({'block': 'C', 'clause': 'both VMs compile to identical bytes', 'count': 'd' if sp[0] == 'd' else 'x'},
                                      f'{nm} {sp}: {got if isinstance(got, str) else got.hex()} vs plain {want_b.hex()}')
        # reachable by name and aliases, identical bytes, decompiles with the new name and recompiles identically
        for cnt in (0, 1, 2):
            for nm in [name, name.lower()] + aliases + [a.lower() for a in aliases]:
                n += 1
                try:
                    got = P_.compile_script('true %s d%d false' % (nm, cnt))
                except BaseException as e:
                    ctx.violation({'block': 'C', 'clause': 'fork op reachable by its name and aliases'}, f'{nm}: {e!r}')
                    continue
                if got != plain_src[cnt]:
                    ctx.violation({'block': 'C', 'clause': 'both VMs compile to identical bytes'},
                                  f'{nm} d{cnt}: {got.hex()} vs plain {plain_src[cnt].hex()}')
            # ... after every statement form that looks ahead at the next symbol
            for nm in [name, name.lower()] + aliases:
                for pre in PRE:
                    n += 1
                    try:
                        want_b = P_.compile_script(pre) + bytes([code, cnt]) + b'\x00'
                        got = P_.compile_script('%s %s d%d OP_FALSE' % (pre, nm, cnt))
                    except BaseException as e:
                        ctx.violation({'block': 'C', 'clause': 'fork op reachable by its name and aliases', 'after': pre.split(' ')[0]},
                                      f'{pre} {nm}: {e!r}')
                        continue
                    if got != want_b:
                        ctx.violation({'block': 'C', 'clause': 'both VMs compile to identical bytes', 'after': pre.split(' ')[0]},
                                      f'{pre} {nm} d{cnt}: {got.hex()} vs {want_b.hex()}')
            # ... and inside every block body
            for nm in [name.lower()] + [a.lower() for a in aliases]:
                for kind, src in BODY_SRC:
                    n += 1
                    want_b = plain_body[(kind, cnt)]
                    try:
                        got = P_.compile_script(src % (nm, cnt))
                    except BaseException as e:
                        ctx.violation({'block': 'C', 'clause': 'fork op reachable by its name and aliases', 'inside': kind}, f'{nm}: {e!r}')
                        continue
                    if got != want_b:
                        ctx.violation({'block': 'C', 'clause': 'both VMs compile to identical bytes', 'inside': kind},
                                      f'{nm} d{cnt} in {kind}: {got.hex()} vs {want_b.hex()}')
            try:
                lines = P_.decompile_script(plain_src[cnt])
                back = P_.compile_script('\n'.join(lines))
                if back != plain_src[cnt] or not any(name in ln.upper() for ln in lines):
                    ctx.violation({'block': 'C', 'clause': 'upgraded decompile shows the new name and recompiles identically'},
                                  f'{lines} -> {back.hex()}')
            except BaseException as e:
                ctx.violation({'block': 'C', 'clause': 'upgraded decompile shows the new name and recompiles identically'}, f'{e!r}')
        for p in progs:
            sb = ForkRender(code).prog(p)
            excluded = in_try(p)
            for wi, w in enumerate(WITNESSES):
                n += 1
                r, st, c, _ = run(w + sb)
                try:
                    a = F.run_auth_scripts([w, sb + b'\x01']) if w else F.run_auth_scripts([sb + b'\x01'])
                except BaseException as e:
                    a = e
                ctx.ran(4)
                ctx.trans(2)
                ctx.state((code, pred, sb, wi))
                pok, pst, pa = plain[(p, wi)]
                if excluded:
                    ctx.count('fork op inside TRY (excluded)')
                    continue
                ctx.outcome('up:%s plain:%s' % (a, pa))
                if a is True and pa is not True:
                    ctx.violation({'block': 'C', 'clause': 'authorizes upgraded => authorizes plain', 'pred': pred},
                                  f'code {code} script {sb.hex()} witness {w.hex()}: upgraded True, plain {pa!r}')
                if r is None and (not pok or pst != st):
                    ctx.violation({'block': 'C', 'clause': 'upgraded run succeeds => plain run is identical', 'pred': pred},
                                  f'code {code} script {sb.hex()} witness {w.hex()}: upgraded stack {st}, plain ok={pok} stack {pst}')
                if pred == 'never' and (pok != (r is None) or (pok and pst != st)):
                    ctx.violation({'block': 'C', 'clause': 'a never-raising fork op behaves exactly like the NOP'},
                                  f'code {code} script {sb.hex()} witness {w.hex()}: upgraded {r!r} {st}, plain ok={pok} {pst}')
        # a history of two forks: the second one, at another free code, takes over an alias of the first; afterwards the
        # alias reaches the second fork, both names reach their own codes, and everything still compiles to the NOP bytes
        code2 = code + 1 if code < 255 else 92
        name2, shared = 'OP_FORKB%d' % code2, aliases[0]
        n += 1
        try:
            T.add_soft_fork(code2, name2, make_fork_op(pred), ['FKB%d' % code2, shared])
            for src, want_b in ((name + ' d1', bytes([code, 1])), (name2.lower() + ' d1', bytes([code2, 1])),
                                (shared + ' d2', bytes([code2, 2])), (shared.lower() + ' d2', bytes([code2, 2])),
                                (aliases[1] + ' d0', bytes([code, 0])), ('FKB%d d0' % code2, bytes([code2, 0])),
                                ('if { %s d1 }' % shared.lower(), b'\x2b\x00\x02' + bytes([code2, 1]))):
                try:
                    got = P_.compile_script(src)
                except BaseException as e:
                    got = repr(e)
                if got != want_b:
                    ctx.violation({'block': 'C', 'clause': 'fork op reachable by its name and aliases', 'history': 'two forks sharing an alias'},
                                  f'codes {code},{code2}: {src!r} compiled to {got if isinstance(got, str) else got.hex()}, want {want_b.hex()}')
        except BaseException as e:
            ctx.violation({'block': 'C', 'clause': 'add_soft_fork installs at a free code', 'history': 'second fork'}, f'code {code2}: {e!r}')
        # ... and a third fork whose own name, without its OP_ prefix, is spelled like the remaining alias of the first: the alias
        # stays with the first fork, the full name reaches the third
        code3 = code2 + 1 if code2 < 255 else 93
        name3 = 'OP_' + aliases[1]
        n += 1
        try:
            T.add_soft_fork(code3, name3, make_fork_op(pred), [])
            for src, want_b in ((aliases[1] + ' d0', bytes([code, 0])), (aliases[1].lower() + ' d3', bytes([code, 3])),
                                (name3 + ' d1', bytes([code3, 1])), (name + ' d1', bytes([code, 1])),
                                ('if { %s d1 }' % aliases[1].lower(), b'\x2b\x00\x02' + bytes([code, 1]))):
                try:
                    got = P_.compile_script(src)
                except BaseException as e:
                    got = repr(e)
                if got != want_b:
                    ctx.violation({'block': 'C', 'clause': 'fork op reachable by its name and aliases', 'history': 'later fork named like an alias'},
                                  f'codes {code},{code3}: {src!r} compiled to {got if isinstance(got, str) else got.hex()}, want {want_b.hex()}')
        except BaseException as e:
            ctx.violation({'block': 'C', 'clause': 'add_soft_fork installs at a free code', 'history': 'third fork'}, f'code {code3}: {e!r}')
    finally:
        restore(snap)
    # after restoring, the code is a NOP again
    if code in F.opcodes or code not in F.nopcodes:
        ctx.violation({'block': 'C', 'clause': 'harness registry restore'}, 'registry not restored')
    ctx.evaluations += max(n - 1, 0)


def blocks(tier, seed):
    q = tier == 'quick'
    codes = [92, 93, 127, 128, 200, 254, 255] if q else list(range(92, 256))
    maxnodes = 2 if q else 3
    fc = [(c, pr, maxnodes if (q or c in (92, 128, 255)) else 2) for c in codes for pr in PREDS]
    return [
        Block('A_nop_single_steps', list(range(92, 256)), nop_steps,
              'every NOP code x every count byte x stack depths %s (plus empty / mixed-size item stacks)' % DEPTHS, nshards=164),
        Block('B_nop_compile_decompile', list(range(92, 256)), nop_compile, 'every code x every count byte, x / d spellings, decompile round trip',
              nshards=164),
        Block('C_soft_fork_compatibility', fc, fork_case,
              'fork op family %s at %d free codes x every control program <= %d nodes containing the forked instruction x 4 witnesses'
              % (list(PREDS), len(codes), maxnodes), nshards=len(fc), backstop=7200),
    ]


def meta(tier, seed):
    q = tier == 'quick'
    return dict(
        rule='(A)(B) complete code x count x depth grids; (C) fork ops installed with add_soft_fork in the worker (registries restored in '
             'place afterwards); plain verdicts are computed on the same bytes before installation',
        states_meaning='distinct (code, predicate, script, witness) cases and (code) grids; transitions = script runs',
        bounds={'codes_for_forks': 7 if q else 164, 'program_nodes': 2 if q else 3, 'predicates': list(PREDS)},
        assumptions=['fork ops of the family only inspect and remove count items and may raise (the statement\'s premise); counts 0,1,2'],
    )
