"""C06 - every instruction behaves as the language specification says.

Differential model checking of the real VM against ref.refvm over
  STEP  : the single-instruction transition relation from every state of a bounded state set
          (all opcodes x boundary operands x stacks of bounded depth over an item alphabet x caches x limits)
  CTRL  : every control-flow composition up to a node bound (full grammar, skeleton grammar, nesting chains).
"""
import itertools

from mc import env, spaces
from mc.diff import compare
from mc.run import Block
from mc import stepspace


def ctrl_features(p):
    """construct kinds on the path to a RETURN (names the scoping rule involved)"""
    out = set()

    def walk(prog, path):
        for s in prog:
            if s[0] == 'RETURN':
                out.add('RETURN under ' + ('>'.join(path) if path else 'top'))
            for sub in s[1:]:
                if isinstance(sub, tuple):
                    walk(sub, path + (s[0],))
    walk(p, ())
    return sorted(out)[:3]


def ctrl_case(ctx, p):
    code = spaces.render(p)
    r = compare(code)
    ctx.ran(2 if r.verdict != "unspec" else 1)
    st = r.impl[1]
    ctx.state((code,))
    if r.verdict == 'agree':
        ctx.outcome('agree:' + r.why)
        ctx.trans(len(p) + 1)
        if st is not None:
            ctx.state(('final', tuple(st)))
    elif r.verdict == 'unspec':
        ctx.unspec(r.why)
    else:
        ctx.violation({'space': 'CTRL', 'why': r.why, 'features': ctrl_features(p)},
                      f'program {p!r} bytes {code.hex()}: {r.detail}')


def rec_case(ctx, p):
    for variant in spaces.REC_VARIANTS:
        code = spaces.render_rec(p, variant)
        r = compare(code)
        ctx.ran(2)
        ctx.state((code,))
        if r.verdict == 'agree':
            ctx.outcome('agree:' + r.why)
            ctx.trans(len(p) + 2)
            if r.impl[1] is not None:
                ctx.state(('final', tuple(r.impl[1])))
        elif r.verdict == 'unspec':
            ctx.unspec(r.why)
        else:
            ctx.violation({'space': 'CTRL rec', 'why': r.why, 'features': ctrl_features(p)},
                          f'program {p!r} budget/tail {variant} bytes {code.hex()}: {r.detail}')
    ctx.evaluations += len(spaces.REC_VARIANTS) - 1


def malformed_case(ctx, case):
    p, kind, pos, code = case
    r = compare(code)
    ctx.ran(2 if r.verdict != "unspec" else 1)
    ctx.state((code,))
    if r.verdict == 'agree':
        ctx.outcome('agree:' + r.why)
        ctx.trans(len(p) + 1)
    elif r.verdict == 'unspec':
        ctx.unspec(r.why)
    else:
        ctx.violation({'space': 'CTRL malformed', 'why': r.why, 'kind': kind.split('+')[0]},
                      f'program {p!r} {kind} at {pos}: bytes {code.hex()}: {r.detail}')


def step_case(ctx, case):
    code, cfg = case
    ro, cache0, flags, limits, contracts = stepspace.config(cfg, ctx.seed)
    r = compare(code, ro=ro, cache0=cache0, flags=flags, limits=limits, contracts=contracts)
    ctx.ran(2 if r.verdict != "unspec" else 1)
    ctx.state((code, cfg))
    ctx.trans()
    if r.verdict == 'agree':
        ctx.outcome('agree:' + r.why)
    elif r.verdict == 'unspec':
        ctx.unspec(r.why)
    else:
        ctx.violation({'space': 'STEP', 'op': stepspace.last_op_name(code), 'why': r.why},
                      f'script {code.hex()} cfg {cfg}: {r.detail}')


CACHE_WRITERS = ('MAKE_ADAPTER_SIG_PUBLIC', 'MAKE_ADAPTER_SIG_PRIVATE', 'DECRYPT_ADAPTER_SIG', 'DERIVE_SCALAR', 'DERIVE_POINT',
                 'SIGN_STACK', 'INVOKE', 'CLAMP_SCALAR', 'CHECK_ADAPTER_SIG')
PAIR_SECOND = CACHE_WRITERS + ('CHECK_SIG_STACK', 'ADD_SCALARS', 'SUBTRACT_SCALARS', 'ADD_POINTS', 'SUBTRACT_POINTS', 'CHECK_SIG', 'TAPROOT')


def pair_cases(tier, seed, shard, nshards):
    """first: up to three typed cases per cache-writing instruction; second: every typed case of the crypto
    instructions; both in one script, so that whatever the first left in the cache is there for the second"""
    typed = list(stepspace.typed_cases('quick', seed, 0, 1))
    firsts, seen = [], {}
    for code, cfg in typed:
        nm = stepspace.last_op_name(code)
        if nm in CACHE_WRITERS and cfg == 0 and seen.get(nm, 0) < 3:
            seen[nm] = seen.get(nm, 0) + 1
            firsts.append(code)
    seconds = [code for code, cfg in typed if cfg == 0 and stepspace.last_op_name(code) in PAIR_SECOND]
    i = 0
    for a in firsts:
        for b in seconds:
            if i % nshards == shard:
                yield (a + b, 0)
            i += 1


BUDGET_WRAPS = ('IFT', 'IFELSE_T', 'IFELSE_F2', 'TRY', 'EXCEPT', 'LOOP1', 'FUNC', 'EVAL')


def budget_case(ctx, case):
    """k calls at top level, then one more inside each construct kind (and inside two nested ones), under a small call-stack limit:
    the call accounting is one and the same at every nesting level"""
    from props.c01 import wrap
    limit, k, kinds = case
    inner = (('CALL0',),)
    for kd in reversed(kinds):
        inner = (wrap(kd, inner),)
    p = (('DEF0', (('M',),)),) + (('CALL0',),) * k + inner + (('M',),)
    code = spaces.render(p)
    r = compare(code, limits=(1024, 1024, limit))
    ctx.ran(2 if r.verdict != "unspec" else 1)
    ctx.state((code, limit))
    ctx.trans(k + len(kinds) + 2)
    if r.verdict == 'agree':
        ctx.outcome('agree:' + r.why)
    elif r.verdict == 'unspec':
        ctx.unspec(r.why)
    else:
        ctx.violation({'space': 'CTRL call budget', 'why': r.why, 'inside': '>'.join(kinds) or 'top'},
                      f'call-stack limit {limit}, {k} top-level calls, then a call inside {kinds}: {r.detail}')


def deftime_cases():
    bodies = ((('M',),), (('CALL0',),), (('CALL1',),), (('T',),), (('F',),))
    for a, b, c in itertools.product((0, 1), repeat=3):
        for x, y, z in itertools.product(bodies, repeat=3):
            for d in (0, 1):
                yield (('DEF%d' % a, x), ('DEF%d' % b, y), ('DEF%d' % c, z), ('CALL%d' % d,), ('M',))


def deftime_case(ctx, p):
    """a call resolves its handle when it runs: forward references, redefinitions between definition and call, mutual recursion"""
    code = spaces.render(p)
    r = compare(code, limits=(1024, 1024, 6))
    ctx.ran(2 if r.verdict != "unspec" else 1)
    ctx.state((code,))
    ctx.trans(5)
    if r.verdict == 'agree':
        ctx.outcome('agree:' + r.why)
    elif r.verdict == 'unspec':
        ctx.unspec(r.why)
    else:
        ctx.violation({'space': 'CTRL definition timing', 'why': r.why}, f'program {p!r} bytes {code.hex()}: {r.detail}')


def flag_cases(tier, seed, shard, nshards):
    """every cache-writing instruction (two typed cases each) after UNSET_FLAG of every one and every two of the integer flags:
    exactly the documented cache entries are withheld"""
    from ref.optable import op
    typed = list(stepspace.typed_cases('quick', seed, 0, 1))
    seen, i = {}, 0
    unset = lambda k: op('UNSET_FLAG') + b'\x01' + bytes([k])
    subsets = [(a,) for a in range(11)] + list(itertools.combinations(range(11), 2))
    for code, cfg in typed:
        nm = stepspace.last_op_name(code)
        if nm not in CACHE_WRITERS or cfg != 0 or seen.get(nm, 0) >= 2:
            continue
        seen[nm] = seen.get(nm, 0) + 1
        for sub in subsets:
            if i % nshards == shard:
                yield (b''.join(unset(k) for k in sub) + code, 0)
            i += 1


def blocks(tier, seed):
    q = tier == 'quick'
    nfull, nskel, nchain = (3, 4, 3) if q else (5, 5, 4)
    nmal = 2 if q else 3
    nrec = 4 if q else 5
    bl = [
        Block('CTRL_rec', lambda s, n: spaces.progs_upto(nrec, 'rec', s, n), rec_case,
              'every program of the bounded-recursion grammar (guarded self-call with a data budget, FAIL, RETURN, TRY, DEF, '
              'IF, LOOP, EVAL) with <= %d nodes x budget {1,2} x final CALL0 bare / inside TRY' % nrec, nshards=64 if q else 1024, backstop=30 if q else 120),
        Block('CTRL_malformed', lambda s, n: spaces.malformed(nmal, 'full', s, n), malformed_case,
              'every byte-prefix and every single-byte perturbation (+1, -1, +200) of every full-grammar program with <= %d nodes' % nmal,
              nshards=64 if q else 256, backstop=30),
        Block('CTRL_full', lambda s, n: spaces.progs_upto(nfull, 'full', s, n), ctrl_case,
              'every program of the full control grammar with <= %d nodes' % nfull, nshards=64 if q else 1024, backstop=30 if q else 120),
        Block('CTRL_skel', lambda s, n: spaces.progs_upto(nskel, 'skel', s, n), ctrl_case,
              'every program of the skeleton grammar with <= %d nodes' % nskel, nshards=64, backstop=30),
        Block('CTRL_chain', lambda s, n: itertools.islice(spaces.chain_progs(nchain), s, None, n), ctrl_case,
              'every nesting chain of depth <= %d x innermost leaf, marker after each level' % nchain, nshards=32),
        Block('STEP', lambda s, n: stepspace.cases(tier, seed, s, n), step_case,
              'all opcodes x boundary operands x bounded stacks x caches x limits', nshards=128, backstop=30),
        Block('STEP_typed', lambda s, n: stepspace.typed_cases(tier, seed, s, n), step_case,
              'multi-operand crypto/contract instructions over typed sub-alphabets', nshards=64),
    ]
    bl.append(Block('STEP_pairs_shared_cache', lambda s, n: pair_cases(tier, seed, s, n), step_case,
                    'cache-writing crypto / contract instruction followed by every typed crypto case, in one script', nshards=128))
    bcases = [(lim, k, kinds) for lim in (1, 2, 3, 5) for k in range(0, lim + 2)
              for kinds in [()] + [(a,) for a in BUDGET_WRAPS] + [(a, b) for a in BUDGET_WRAPS for b in BUDGET_WRAPS]]
    bl.append(Block('CTRL_call_budget', bcases, budget_case,
                    'call-stack limit {1,2,3,5} x 0..limit+1 top-level calls x one more call inside every construct kind / pair of kinds', nshards=32))
    bl.append(Block('CTRL_definition_timing', list(deftime_cases()), deftime_case,
                    'three definitions over handles {0,1} x bodies {marker, CALL0, CALL1, TRUE, FALSE}, then a call (2000 programs, call-stack limit 6)', nshards=32))
    bl.append(Block('STEP_flag_subsets', lambda s, n: flag_cases(tier, seed, s, n), step_case,
                    'cache-writing crypto / contract instruction after UNSET_FLAG of every one and every two of the 11 integer flags', nshards=32))
    return bl


def meta(tier, seed):
    q = tier == 'quick'
    return dict(
        rule='STEP: one instruction from every state of the bounded set; CTRL: all programs up to the node bound; every case is '
             'executed by run_script and by ref.refvm on the same bytes and environment answers; compared: raised/not, final stack, '
             'bytes-keyed cache',
        states_meaning='distinct (program bytes, configuration) initial states plus distinct final stacks; transitions = '
                       'instructions / statements executed',
        bounds={'CTRL_full_nodes': 3 if q else 5, 'CTRL_skel_nodes': 4 if q else 5, 'CTRL_chain_depth': 3 if q else 4,
                'STEP_items': len(stepspace.items(tier, seed)), 'STEP_max_depth': 3},
        assumptions=['reference semantics = docs.md + language_spec.md + unit-test-pinned operand orders (ref/refvm.py); whatever the '
                     'documents leave open is "unspecified" and not judged (counted in unspecified_by_oracle)',
                     'exception class/text is not compared, only raised / not raised',
                     'RETURN inside a LOOP body: both "ends the loop" and "ends the enclosing script" are accepted; it must not affect '
                     'instructions after the loop in any other way'],
    )
