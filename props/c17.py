"""C17 - adapter signatures are verifiable encryptions of a valid signature.

For every (signer seed, message, tweak scalar) of the enumerated families the
real make / check / decrypt instructions and the adapter builders are run and
every algebraic identity of the statement is re-derived with the independent
RFC 8032 reference (ref.refed).  Soundness: every single-bit corruption of each
of the five check inputs must make the check yield false or raise.
"""
from mc import env
from mc.run import Block
from mc.vm import run, auth, TRUE, FALSE
from ref import refed
from ref.optable import op, push

T_ = env.tools
F = env.functions
L = refed.L
MSG_LENS = [0, 1, 31, 32, 33, 63, 64, 65, 127, 128, 255, 256, 512]


def P(b):
    """push that also handles the empty item"""
    return push(b) if len(b) else b'\x03\x00'


def tweak_scalars(seed, full):
    out = []
    for name, v in (('1', 1), ('2', 2), ('L-1', L - 1), ('L+1', L + 1), ('2^252', 1 << 252), ('2^255-1', (1 << 255) - 1)):
        out.append((name, v.to_bytes(32, 'little')))
    pats = range(32) if full else (0, 7, 8, 24, 31, 13)
    for pat in pats:
        low3, top2 = pat & 7, pat >> 3
        b = bytearray(env.sym(seed, 'tweak%d' % pat))
        b[0] = (b[0] & 0xf8) | low3
        b[31] = (b[31] & 0x3f) | (top2 << 6)
        out.append(('pat%d' % pat, bytes(b)))
        out.append(('pat%d.clamped' % pat, refed.clamp_scalar(bytes(b), True)))
    return out


def teff(t):
    """the scalar the library documents for a 32-byte tweak: bit 255 cleared"""
    return int.from_bytes(t, 'little') & ((1 << 255) - 1)


def flip(b, bit):
    ba = bytearray(b)
    ba[bit // 8] ^= 1 << (bit % 8)
    return bytes(ba)


def adapter_equation(X, Tp, m, R, sa):
    """sa*G == R + H(R+T || X || m)*X  (reference arithmetic)"""
    RT = refed.add_enc(R, Tp)
    if RT is None:
        return False
    c = refed.sha512_modq(RT + X + m)
    rhs = refed.add_enc(R, refed.mul_enc(c, X))
    return rhs is not None and refed.base_mul_enc(refed.sc(sa) % L) == rhs


def check_op(X, Tp, m, R, sa):
    r, st, _ = run(P(sa) + P(R) + P(m) + P(Tp) + P(X) + op('CHECK_ADAPTER_SIG'))
    return 'raise' if r is not None else 'true' if st == [TRUE] else 'false' if st == [FALSE] else 'other'


def algebra_case(ctx, case):
    k, mlen, tname, t = case
    seed = ctx.seed
    ks = env.sym(seed, 'K%d' % k)
    X = refed.public_key(ks)
    m = env.sym(seed, 'amsg%d' % mlen, mlen)
    te = teff(t)
    if te % L == 0:
        ctx.unspec('t = 0 mod L: libsodium refuses to produce 0*G')
        return
    Tp = refed.base_mul_enc(te)
    ctx.state(('alg', k, mlen, tname))
    # ---- public maker
    r, st, c = run(P(ks) + P(m) + P(Tp) + op('MAKE_ADAPTER_SIG_PUBLIC'))
    ctx.ran(); ctx.trans(4)
    if r is not None or len(st) != 2 or any(len(x) != 32 for x in st):
        ctx.violation({'op': 'MAKE_ADAPTER_SIG_PUBLIC', 'clause': 'produces (R, sa)'}, f'{case[:3]}: {r!r} {st}')
        return
    R, sa = st
    cached_outputs(ctx, 'MAKE_ADAPTER_SIG_PUBLIC', case, P(ks) + P(m) + P(Tp) + op('MAKE_ADAPTER_SIG_PUBLIC'), 2, c,
                   {b'R': R, b'T': Tp, b'sa': sa})
    full_chain(ctx, 'MAKE_ADAPTER_SIG_PUBLIC', case, ks, X, m, t, te, Tp, R, sa)
    # ---- private maker
    r, st, c = run(P(m) + P(t) + P(ks) + op('MAKE_ADAPTER_SIG_PRIVATE'))
    ctx.ran(); ctx.trans(4)
    if r is not None or len(st) != 3 or any(len(x) != 32 for x in st):
        ctx.violation({'op': 'MAKE_ADAPTER_SIG_PRIVATE', 'clause': 'produces (T, R, sa)'}, f'{case[:3]}: {r!r} {st}')
        return
    T2, R2, sa2 = st
    cached_outputs(ctx, 'MAKE_ADAPTER_SIG_PRIVATE', case, P(m) + P(t) + P(ks) + op('MAKE_ADAPTER_SIG_PRIVATE'), 3, c,
                   {b'R': R2, b'T': Tp, b'sa': sa2, b't': te})
    if T2 != Tp:
        ctx.violation({'op': 'MAKE_ADAPTER_SIG_PRIVATE', 'clause': 'T = t*G'}, f'{case[:3]}: {T2.hex()} != {Tp.hex()}')
    full_chain(ctx, 'MAKE_ADAPTER_SIG_PRIVATE', case, ks, X, m, t, te, Tp, R2, sa2)


def cached_outputs(ctx, opname, case, prog, nout, c, want):
    """the values an instruction leaves in the cache under its documented names (all optional-cache flags are on by
    default) are the values it documents - compared directly and read back by a later READ_CACHE of the same script"""
    for key, w in want.items():
        got = c.get(key)
        if isinstance(got, (list, tuple)) and len(got) == 1:
            got = got[0]
        ok = isinstance(got, bytes) and (got == w if isinstance(w, bytes) else (len(got) == 32 and refed.sc(got) % L == w % L))
        if not ok:
            ctx.violation({'op': opname, 'clause': 'cached output @%s is the documented value' % key.decode()},
                          f'{case[:3]}: cache[{key!r}] = {got.hex() if isinstance(got, bytes) else got!r}')
            continue
        r, st, _ = run(prog + op('POP0') * nout + op('READ_CACHE') + bytes([len(key)]) + key)
        ctx.ran(); ctx.trans(nout + 2)
        g = st[0] if r is None and len(st) == 1 else None
        if not (isinstance(g, bytes) and (g == w if isinstance(w, bytes) else (len(g) == 32 and refed.sc(g) % L == w % L))):
            ctx.violation({'op': opname, 'clause': 'READ_CACHE of output @%s yields the documented value' % key.decode()},
                          f'{case[:3]}: {r!r} {st}')


def full_chain(ctx, maker, case, ks, X, m, t, te, Tp, R, sa):
    tag = case[:3]
    if not adapter_equation(X, Tp, m, R, sa):
        ctx.violation({'op': maker, 'clause': 'adapter equation sa*G == R + H(R+T||X||m)*X'}, f'{tag}')
    g = check_op(X, Tp, m, R, sa)
    ctx.ran(); ctx.trans(6)
    ctx.outcome(maker[17:] + ' check:' + g)
    if g != 'true':
        ctx.violation({'op': maker, 'clause': 'adapter passes CHECK_ADAPTER_SIG'}, f'{tag}: {g}')
    # decrypt with t
    r, st, _c = run(P(sa) + P(R) + P(t) + op('DECRYPT_ADAPTER_SIG'))
    ctx.ran(); ctx.trans(4)
    if r is not None or len(st) != 2:
        ctx.violation({'op': 'DECRYPT_ADAPTER_SIG', 'clause': 'produces (RT, s)', 'maker': maker}, f'{tag}: {r!r} {st}')
        return
    RT, s = st
    cached_outputs(ctx, 'DECRYPT_ADAPTER_SIG', case, P(sa) + P(R) + P(t) + op('DECRYPT_ADAPTER_SIG'), 2, _c, {b'RT': RT, b's': s})
    if RT != refed.add_enc(R, Tp):
        ctx.violation({'op': 'DECRYPT_ADAPTER_SIG', 'clause': 'RT = R + T', 'maker': maker}, f'{tag}')
    if len(s) != 32 or refed.sc(s) != (refed.sc(sa) + te) % L:
        ctx.violation({'op': 'DECRYPT_ADAPTER_SIG', 'clause': 's = sa + t mod L', 'maker': maker}, f'{tag}')
    sig = RT + s
    valid = refed.verify_strict(X, m, sig)
    if not valid:
        ctx.violation({'op': maker, 'clause': 'decrypted (R+T, sa+t) is a valid Ed25519 signature'}, f'{tag}')
    r, st, _ = run(P(sig) + P(m) + P(X) + op('CHECK_SIG_STACK'))
    ctx.ran(); ctx.trans(4)
    if (st == [TRUE]) != valid:
        ctx.violation({'op': 'CHECK_SIG_STACK', 'clause': 'agrees with reference on decrypted signature', 'maker': maker},
                      f'{tag}: ref={valid} vm={st} {r!r}')
    # recover t = s - sa
    rec = (refed.sc(s) - refed.sc(sa)) % L
    if rec != te % L:
        ctx.violation({'op': maker, 'clause': 'recover t = s - sa'}, f'{tag}')
    r, st, _ = run(P(sa) + P(s) + op('SUBTRACT_SCALARS') + b'\x02')
    ctx.ran(); ctx.trans(3)
    if r is not None or st != [refed.sc_enc(rec)]:
        ctx.violation({'op': 'SUBTRACT_SCALARS', 'clause': 's - sa in the VM', 'maker': maker}, f'{tag}: {r!r} {st}')
    # the adapter itself is not a signature
    if refed.verify_strict(X, m, R + sa):
        ctx.violation({'op': maker, 'clause': 'the adapter itself is not a valid signature'}, f'{tag}')
    r, st, _ = run(P(R + sa) + P(m) + P(X) + op('CHECK_SIG_STACK'))
    ctx.ran(); ctx.trans(4)
    if st == [TRUE]:
        ctx.violation({'op': 'CHECK_SIG_STACK', 'clause': 'accepts the undecrypted adapter', 'maker': maker}, f'{tag}')
    # decryption with another scalar is not a valid signature
    for other in (1, te + 1, (te ^ 8) or 3):
        if other % L == te % L or other % L == 0:
            continue
        ob = (other % (1 << 255)).to_bytes(32, 'little')
        r, st, _ = run(P(sa) + P(R) + P(ob) + op('DECRYPT_ADAPTER_SIG'))
        ctx.ran(); ctx.trans(4)
        if r is None and len(st) == 2:
            if refed.verify_strict(X, m, st[0] + st[1]):
                ctx.violation({'op': maker, 'clause': 'decryption with another scalar is invalid'}, f'{tag} other={other}')
            r2, st2, _ = run(P(st[0] + st[1]) + P(m) + P(X) + op('CHECK_SIG_STACK'))
            ctx.ran(); ctx.trans(4)
            if st2 == [TRUE]:
                ctx.violation({'op': 'CHECK_SIG_STACK', 'clause': 'accepts wrong-scalar decryption', 'maker': maker}, f'{tag}')


def param_set(seed, idx):
    ks = env.sym(seed, 'seqK%d' % idx)
    X = refed.public_key(ks)
    m = env.sym(seed, 'seqm%d' % idx, 20 + idx)
    t = env.sym(seed, 'seqt%d' % idx)
    t = bytes(t[:31]) + bytes([t[31] & 0x7f])
    Tp = refed.base_mul_enc(teff(t))
    r, st, _ = run(P(ks) + P(m) + P(Tp) + op('MAKE_ADAPTER_SIG_PUBLIC'))
    assert r is None and len(st) == 2, (r, st)
    R, sa = st
    return {
        'MASU': P(ks) + P(m) + P(Tp) + op('MAKE_ADAPTER_SIG_PUBLIC'),
        'MASV': P(m) + P(t) + P(ks) + op('MAKE_ADAPTER_SIG_PRIVATE'),
        'CAS': P(sa) + P(R) + P(m) + P(Tp) + P(X) + op('CHECK_ADAPTER_SIG'),
        'DAS': P(sa) + P(R) + P(t) + op('DECRYPT_ADAPTER_SIG'),
        'DERIVE_POINT': P(t) + op('DERIVE_POINT'),
        'DERIVE_SCALAR': P(ks) + op('DERIVE_SCALAR'),
        'SIGN_STACK': P(m) + P(ks) + op('SIGN_STACK'),
        'CLAMP': P(t) + op('CLAMP_SCALAR') + b'\x00',
    }


def sequence_case(ctx, case):
    """every ordered pair of adapter / derivation instructions with independent parameters in ONE script (one cache):
    the second instruction yields exactly what it yields when run alone - no value cached by the first may be reused"""
    a_name, b_name = case
    seed = ctx.seed
    sets = [param_set(seed, 0), param_set(seed, 1)]
    n = 0
    for ai, bi in ((0, 1), (1, 0), (0, 0)):
        n += 1
        A, B = sets[ai][a_name], sets[bi][b_name]
        r0, st0, _ = run(B)
        r1, st1, _ = run(A + B)
        ra, sta, _ = run(A)
        ctx.ran(3); ctx.trans(3)
        ctx.state(('seq', a_name, b_name, ai, bi))
        ctx.outcome('seq:%s' % ('raise' if r1 is not None else 'ok'))
        if ra is not None or r0 is not None:
            ctx.violation({'block': 'sequences', 'clause': 'instruction runs alone', 'op': a_name if ra is not None else b_name},
                          f'{a_name}/{b_name}: {ra!r} {r0!r}')
            continue
        if r1 is not None or st1 != sta + st0:
            ctx.violation({'block': 'sequences', 'clause': 'result independent of values cached by an earlier instruction',
                           'first': a_name, 'second': b_name},
                          f'{a_name}(set {ai}) then {b_name}(set {bi}): {r1!r} got {[x.hex()[:16] for x in (st1 or [])]} '
                          f'want {[x.hex()[:16] for x in sta + st0]}')
    # the optional cache entries are governed by tape flags 3-9; with any of them unset by the script itself (or set again)
    # the second instruction still yields the same items
    if a_name == b_name:
        B = sets[0][b_name]
        r0, st0, _ = run(B)
        for k in range(3, 10):
            for instr in ('UNSET_FLAG', 'SET_FLAG'):
                n += 1
                r1, st1, _ = run(op(instr) + b'\x01' + bytes([k]) + B)
                ctx.ran(); ctx.trans(2)
                ctx.state(('seq-flag', b_name, instr, k))
                if r0 is None and (r1 is not None or st1 != st0):
                    ctx.violation({'block': 'sequences', 'clause': 'result independent of the optional-cache flags', 'op': b_name},
                                  f'{instr} {k} then {b_name}: {r1!r} {[x.hex()[:16] for x in (st1 or [])]}')
    ctx.evaluations += n - 1


def corruption_case(ctx, case):
    k, mlen, tname, t, which = case
    seed = ctx.seed
    ks = env.sym(seed, 'K%d' % k)
    X = refed.public_key(ks)
    m = env.sym(seed, 'amsg%d' % mlen, mlen)
    te = teff(t)
    Tp = refed.base_mul_enc(te)
    r, st, _ = run(P(ks) + P(m) + P(Tp) + op('MAKE_ADAPTER_SIG_PUBLIC'))
    if r is not None or len(st) != 2:
        ctx.violation({'op': 'MAKE_ADAPTER_SIG_PUBLIC', 'clause': 'produces (R, sa)'}, f'{r!r}')
        return
    R, sa = st
    inputs = {'X': X, 'T': Tp, 'm': m, 'R': R, 'sa': sa}
    n = 0
    for bit in range(8 * len(inputs[which])):
        n += 1
        d = dict(inputs)
        d[which] = flip(d[which], bit)
        g = check_op(d['X'], d['T'], d['m'], d['R'], d['sa'])
        ctx.ran(); ctx.trans(6)
        ctx.state(('cor', k, mlen, tname, which, bit))
        ctx.outcome('corrupt %s:%s' % (which, g))
        if g not in ('false', 'raise'):
            sig = {'op': 'CHECK_ADAPTER_SIG', 'clause': 'altered input still passes', 'input': which}
            if which in ('sa',):
                sig['bit'] = bit if bit == 255 else 'other'
            ctx.violation(sig, f'{case[:3]} {which} bit {bit}: {g}')
    # wrong lengths never yield true
    for ln in (0, 31, 33):
        if which == 'm':
            break
        n += 1
        d = dict(inputs)
        d[which] = (d[which] * 2)[:ln]
        g = check_op(d['X'], d['T'], d['m'], d['R'], d['sa'])
        ctx.ran(); ctx.trans(6)
        if g == 'true':
            ctx.violation({'op': 'CHECK_ADAPTER_SIG', 'clause': 'wrong length input passes', 'input': which}, f'{case[:3]} len {ln}')
    ctx.evaluations += n - 1


SIGSETS = [({'sigfield1': 1}, '00'), ({'sigfield1': 1, 'sigfield2': 1}, '00'), ({'sigfield1': 1, 'sigfield2': 1}, '01'),
           ({'sigfield2': 1, 'sigfield8': 1}, '00'), ({'sigfield1': 1, 'sigfield3': 1, 'sigfield8': 1}, '84'),
           ({'sigfield%d' % i: 1 for i in range(1, 9)}, '5a')]
NBASE_SETS = len(SIGSETS)
SIGSETS += [({'sigfield%d' % i: 1 for i in range(1, 9)}, '%02x' % (1 << b)) for b in range(8)] + \
    [({'sigfield%d' % i: 1 for i in range(1, 9)}, 'a5'), ({'sigfield%d' % i: 1 for i in (2, 4, 6, 7)}, '7e')]


def builder_case(ctx, case):
    k, tname, t, si = case
    seed = ctx.seed
    ks = env.sym(seed, 'K%d' % k)
    X = refed.public_key(ks)
    te = teff(t)
    if te % L == 0:
        return
    Tp = refed.base_mul_enc(te)
    names, flags = SIGSETS[si]
    sf = {n: env.sym(seed, 'b.' + n, 5 + int(n[-1])) for n in names}
    fl = int(flags, 16)
    m = b''.join(sf[n] for n in sorted(sf) if not fl >> (int(n[-1]) - 1) & 1)
    ctx.state(('bld', k, tname, si))
    tag = (k, tname, si)
    try:
        # history: an earlier witness by the same key for the same point, flags and field names over other contents
        sf0 = {n: v + b'-earlier' for n, v in sf.items()}
        m0 = b''.join(sf0[n] for n in sorted(sf0) if not fl >> (int(n[-1]) - 1) & 1)
        w0 = T_.make_adapter_witness(ks, Tp, dict(sf0), flags)
        ctx.ran()
        if len(w0.bytes) != 68 or not adapter_equation(X, Tp, m0, w0.bytes[36:68], w0.bytes[2:34]):
            ctx.violation({'builder': 'make_adapter_witness', 'clause': 'adapter equation over the flag-selected message', 'when': 'earlier contents'}, f'{tag}')
        wit = T_.make_adapter_witness(ks, Tp, dict(sf), flags)
        l1, l2 = T_.make_adapter_locks_pub(X, Tp, flags)
        p1, p2, p3 = T_.make_adapter_locks_prv(X, t, flags)
    except BaseException as e:
        ctx.violation({'builder': 'adapter builders', 'clause': 'builders run'}, f'{tag}: {e!r}')
        return
    ctx.ran(3)
    if len(wit.bytes) != 68:
        ctx.violation({'builder': 'make_adapter_witness', 'clause': 'pushes sa and R'}, f'{tag}: {wit.bytes.hex()}')
        return
    sa, R = wit.bytes[2:34], wit.bytes[36:68]
    if not adapter_equation(X, Tp, m, R, sa):
        ctx.violation({'builder': 'make_adapter_witness', 'clause': 'adapter equation over the flag-selected message'}, f'{tag}')
    if (p1.bytes, p3.bytes) != (l1.bytes, l2.bytes):
        ctx.violation({'builder': 'make_adapter_locks_prv', 'clause': 'same check/verify scripts as the _pub builder for T = t*G'}, f'{tag}')
    ok1 = auth([wit.bytes, l1.bytes], sf)
    ctx.ran(); ctx.trans(6)
    if not ok1:
        ctx.violation({'builder': 'make_adapter_locks_pub', 'clause': 'witness passes the adapter-check script'}, f'{tag}')
    try:
        sig = T_.decrypt_adapter(wit, t)
    except BaseException as e:
        ctx.violation({'builder': 'decrypt_adapter', 'clause': 'runs'}, f'{tag}: {e!r}')
        return
    ctx.ran()
    want_sig = refed.add_enc(R, Tp) + refed.sc_enc(refed.sc(sa) + te)
    if sig != want_sig:
        ctx.violation({'builder': 'decrypt_adapter', 'clause': '(R+T, sa+t)'}, f'{tag}')
    if not refed.verify_strict(X, m, sig[:64]):
        ctx.violation({'builder': 'decrypt_adapter', 'clause': 'decrypted signature verifies (reference)'}, f'{tag}')
    # the builders do not depend on which side-effect flags the embedder left switched on (the VM's integer flags only say which
    # intermediate values are ALSO copied into the cache)
    if si == 0:
        saved_fts = list(F.flags_to_set)
        for off in ((7,), (9,), (7, 9), (3, 4, 6, 8), tuple(range(11))):
            F.flags_to_set[:] = [x for x in saved_fts if x not in off]
            try:
                sig_f = T_.decrypt_adapter(wit, t)
                wit_f = T_.make_adapter_witness(ks, Tp, dict(sf), flags)
                ok_f = sig_f == want_sig and len(wit_f.bytes) == 68 and adapter_equation(X, Tp, m, wit_f.bytes[36:68], wit_f.bytes[2:34])
            except BaseException as e:
                ok_f = repr(e)
            finally:
                F.flags_to_set[:] = saved_fts
            ctx.ran(2)
            if ok_f is not True:
                ctx.violation({'builder': 'decrypt_adapter / make_adapter_witness', 'clause': 'builders work whatever integer flags the embedder enabled'},
                              f'{tag}: flags {off} taken out of flags_to_set: {ok_f}')
    sigitem = sig + (bytes([fl]) if fl else b'')
    # anyone recovers t from the signature and the adapter witness through the library's own recovery function (y = 0); a form of the
    # signature it does not take (flag byte attached, cut short) is refused, never turned into another scalar
    for form, sg in (('64 bytes', sig[:64]), ('with flag byte', sig[:64] + bytes([fl])), ('with flag byte 5a', sig[:64] + b'\x5a'), ('63 bytes', sig[:63])):
        try:
            rec = T_.release_left_amhl_lock(wit.bytes if hasattr(wit, 'bytes') else wit, sg, bytes(32))
        except BaseException as e:
            if form == '64 bytes':
                ctx.violation({'builder': 'release_left_amhl_lock', 'clause': 'recovers t = s - sa', 'how': 'raises'}, f'{tag}: {e!r}')
            continue
        ctx.ran()
        if type(rec) is not bytes or int.from_bytes(rec, 'little') % L != te % L:
            ctx.violation({'builder': 'release_left_amhl_lock', 'clause': 'recovers t = s - sa', 'signature form': form}, f'{tag}: recovered another scalar')
    ok2 = auth([P(sigitem), l2.bytes], sf)
    ctx.ran(); ctx.trans(3)
    if not ok2:
        ctx.violation({'builder': 'make_adapter_locks_pub', 'clause': 'decrypted signature unlocks the signature script'}, f'{tag}')
    # the undecrypted adapter does not unlock the signature script
    if auth([P(R + sa + (bytes([fl]) if fl else b'')), l2.bytes], sf):
        ctx.violation({'builder': 'make_adapter_locks_pub', 'clause': 'undecrypted adapter rejected'}, f'{tag}')
    ctx.ran()
    # make_adapter_decrypt script in the VM: witness + decrypt script leaves RT, s
    r, st, _ = run(wit.bytes + p2.bytes, sf)
    ctx.ran(); ctx.trans(4)
    if r is not None or len(st) != 2 or st[0] + st[1] != want_sig:
        ctx.violation({'builder': 'make_adapter_decrypt', 'clause': 'decrypt script yields (R+T, sa+t)'}, f'{tag}: {r!r}')
    # decrypting with another scalar fails the signature script
    other = next(o for o in ((te + 1) % (1 << 255), (te + 2) % (1 << 255), 2, 3) if o % L not in (0, te % L))
    sig_bad = T_.decrypt_adapter(wit, other.to_bytes(32, 'little'))
    if auth([P(sig_bad + (bytes([fl]) if fl else b'')), l2.bytes], sf):
        ctx.violation({'builder': 'decrypt_adapter', 'clause': 'wrong scalar rejected'}, f'{tag}')
    ctx.ran(2)
    # deprecated single-script locks: witness = push t, then the adapter witness
    for name, lock in (('make_adapter_lock_pub', T_.make_adapter_lock_pub(X, Tp, flags)),
                       ('make_adapter_lock_prv', T_.make_adapter_lock_prv(X, t, flags))):
        tc = refed.clamp_scalar(t)
        ok = auth([P(tc) + wit.bytes, lock.bytes], sf)
        ctx.ran(); ctx.trans(20)
        if not ok:
            ctx.violation({'builder': name, 'clause': 'honest (t, sa, R) unlocks',
                           'sigflags': 'zero' if fl == 0 else 'non-zero'}, f'{tag} flags={flags}')
        bad = auth([P(other.to_bytes(32, 'little')) + wit.bytes, lock.bytes], sf)
        ctx.ran()
        if bad:
            ctx.violation({'builder': name, 'clause': 'wrong scalar rejected'}, f'{tag}')
        # a complete, internally consistent adapter for ANOTHER tweak point (its own scalar, its own adapter witness)
        # does not open a lock that was made for T
        t2 = ((te ^ 0x55) % (1 << 252) or 5).to_bytes(32, 'little')
        T2 = refed.base_mul_enc(teff(t2))
        wit2 = T_.make_adapter_witness(ks, T2, dict(sf), flags)
        ctx.ran(2)
        if T2 != Tp and auth([P(refed.clamp_scalar(t2)) + wit2.bytes, lock.bytes], sf):
            ctx.violation({'builder': name, 'clause': 'the lock is bound to its tweak point'}, f'{tag} flags={flags}')
    # a changed covered field / other key make the adapter check script fail
    sf2 = dict(sf)
    cov = [n for n in sorted(sf) if not fl >> (int(n[-1]) - 1) & 1]
    if cov:
        sf2[cov[0]] = sf2[cov[0]] + b'!'
        if auth([wit.bytes, l1.bytes], sf2):
            ctx.violation({'builder': 'make_adapter_locks_pub', 'clause': 'changed covered field rejected'}, f'{tag}')
    exc = [n for n in sorted(sf) if fl >> (int(n[-1]) - 1) & 1]
    for name_ in exc:
        sf3 = dict(sf)
        sf3[name_] = sf3[name_] + b'!'
        ctx.ran()
        if not auth([wit.bytes, l1.bytes], sf3):
            ctx.violation({'builder': 'make_adapter_locks_pub', 'clause': 'a field excluded by the flags may change'}, f'{tag} {name_}')
    t2 = ((te ^ 0x55) % (1 << 252) or 5).to_bytes(32, 'little')
    T2 = refed.base_mul_enc(teff(t2))
    if T2 != Tp and auth([T_.make_adapter_witness(ks, T2, dict(sf), flags).bytes, l1.bytes], sf):
        ctx.violation({'builder': 'make_adapter_locks_pub', 'clause': 'the lock is bound to its tweak point'}, f'{tag}')
    X2 = refed.public_key(env.sym(seed, 'K%d' % ((k + 1) % 3)))
    l1o, _ = T_.make_adapter_locks_pub(X2, Tp, flags)
    if auth([wit.bytes, l1o.bytes], sf):
        ctx.violation({'builder': 'make_adapter_locks_pub', 'clause': 'other key rejected'}, f'{tag}')
    ctx.ran(2)


def blocks(tier, seed):
    q = tier == 'quick'
    tws = tweak_scalars(seed, not q)
    alg = [(k, ml, tn, t) for k in (range(2) if q else range(3)) for ml in MSG_LENS for tn, t in tws]
    if q:
        alg += [(k, ml, tn, t) for k in (1, 2) for ml in (0, 32, 65) for tn, t in tws[:8]]
    bases = [(0, 32, tws[6][0], tws[6][1]), (1, 65, tws[2][0], tws[2][1])]
    if not q:
        bases += [(k, ml, tws[i][0], tws[i][1]) for k, ml, i in
                  ((2, 0, 0), (2, 1, 7), (0, 64, 8), (1, 127, 9), (0, 31, 10), (2, 33, 11), (1, 255, 3), (0, 512, 4), (2, 63, 5), (1, 128, 12))]
    cor = [b + (w,) for b in bases for w in ('sa', 'R', 'T', 'X', 'm')]
    bld = [(k, tn, t, si) for k in (range(2) if q else range(3)) for tn, t in (tws[:10] if q else tws) for si in range(NBASE_SETS)]
    bld += [(0, tn, t, si) for tn, t in (tws[6:8] if q else tws[:12]) for si in range(NBASE_SETS, len(SIGSETS))]
    names = ('MASU', 'MASV', 'CAS', 'DAS', 'DERIVE_POINT', 'DERIVE_SCALAR', 'SIGN_STACK', 'CLAMP')
    seqs = [(a, b) for a in names for b in names]
    return [
        Block('shared_cache_sequences', seqs, sequence_case, 'every ordered pair of adapter / derivation instructions x parameter sets '
              '(different / same) in one script', nshards=len(seqs)),
        Block('algebra_make_check_decrypt_recover', alg, algebra_case, 'seeds x message lengths x tweak scalars, both makers', nshards=min(len(alg), 128)),
        Block('single_bit_corruptions', cor, corruption_case, 'every bit of sa, R, T, X, m for the base cases', nshards=len(cor)),
        Block('builders_end_to_end', bld, builder_case, 'witness/locks_pub/locks_prv/decrypt builders x sigfield sets x flags', nshards=min(len(bld), 128)),
    ]


def meta(tier, seed):
    assert refed.selftest()
    return dict(
        rule='complete product seeds x message lengths {0..512 boundary set} x tweak scalars (edge values + every (low3,top2) bit pattern, '
             'raw and clamped); every bit of each of the five check inputs for the base cases; identities re-derived with ref.refed',
        states_meaning='distinct (seed, message length, tweak, [input, bit]) cases; transitions = VM instructions executed',
        bounds={'message_lengths': MSG_LENS, 'seeds': 1 if tier == 'quick' else 3},
        assumptions=['t = 0 (mod L) is outside the domain: libsodium refuses 0*G (counted as unspecified)',
                     'a 32-byte tweak denotes the scalar with bit 255 cleared (documented clamp_scalar behaviour)',
                     'data independence over seeds/messages beyond the alphabet (DESIGN 2.6)'],
    )
