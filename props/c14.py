"""C14 - delegation locks honour the certificate key, time window and delegability.

Single lock: full product of (window position of t, may-delegate, certificate signer, clock slack
position, final signer, flags).  Chain lock: every chain length up to the bound, full per-link
product for short chains, all single-link (and pairs for length 3) deviations for longer ones,
cross-chain splices, reordering, marker inconsistencies.  Oracles: the delegation model written
from the statement and the reference interpreter on the same bytes.  Certificate pack/unpack over
the full product of boundary field values.
"""
import itertools

from mc import env
from mc.diff import ref_auth
from mc.run import Block
from ref import refed
from ref.optable import op, push

F, T = env.functions, env.tools
TNOW = 1_700_000_000
WINDOW = ('begin-1', 'begin', 'begin+1', 'end-2', 'end-1', 'end', 'end+1', 'unit', 'empty', 'inverted')
SIGNERS = ('correct', 'root', 'outsider')
THR = 60


def P(b):
    return push(b) if len(b) else b'\x03\x00'


def window(pos, t):
    """(begin, end) such that t sits at the named position"""
    span = 1000
    if pos == 'unit':           # one-second window holding t
        return t, t + 1
    if pos == 'empty':          # begin == end: no timestamp satisfies begin <= t < end
        return t, t
    if pos == 'inverted':       # begin > end
        return t + 5, t - 5
    if pos.startswith('begin'):
        d = {'begin-1': -1, 'begin': 0, 'begin+1': 1}[pos]
        b = t - d
        return b, b + span
    d = {'end-2': -2, 'end-1': -1, 'end': 0, 'end+1': 1}[pos]
    e = t - d
    return e - span, e


def in_window(pos):
    return pos in ('begin', 'begin+1', 'end-2', 'end-1', 'unit')


def keys(seed, chain='x'):
    names = ['root', 'outsider'] + ['d%d' % i for i in range(1, 16)]
    sk = {n: env.sym(seed, 'c14.%s.%s' % (chain, n)) for n in names}
    return sk, {n: refed.public_key(v) for n, v in sk.items()}


def sf(seed):
    return {'sigfield1': env.sym(seed, 'c14.f1', 6), 'sigfield2': env.sym(seed, 'c14.f2', 9)}


_CERTS = {}


def cert(seed, chain, signer, delegate, begin, end, can):
    key = (seed, chain, signer, delegate, begin, end, can)
    if key not in _CERTS:
        sk, pk = keys(seed, chain)
        _CERTS[key] = T.make_delegate_key_cert(sk[signer], pk[delegate], begin, end, can).pack()
    return _CERTS[key]


def run(ctx, scripts, cache):
    try:
        v = F.run_auth_scripts(list(scripts), dict(cache))
    except BaseException as e:
        v = e
    ctx.ran()
    ctx.trans(len(scripts))
    if len(cache) > 1:
        # the cache is a mapping: the same entries inserted in the opposite order give the same verdict
        try:
            v2 = F.run_auth_scripts(list(scripts), dict(reversed(list(cache.items()))))
        except BaseException as e:
            v2 = e
        ctx.ran()
        ctx.trans(len(scripts))
        if (v2 if type(v2) is bool else type(v2)) != (v if type(v) is bool else type(v)):
            ctx.violation({'clause': 'verdict independent of the order of the cache entries', 'kind': 'accepts' if v2 is True else 'rejects'},
                          f'{len(scripts)} scripts, fields {sorted(k for k in cache if type(k) is str)}: {v!r} / reversed {v2!r}')
    return v


def judge(ctx, scripts, cache, want, sig, detail, now):
    v = run(ctx, scripts, cache)
    ctx.outcome('%s' % (v if type(v) is bool else 'raised'))
    if v is not want:
        ctx.violation({**sig, 'oracle': 'delegation model', 'kind': 'accepts' if v is True else 'rejects'},
                      f'{detail}: run_auth_scripts {v!r}, model {want}')
    rv, _ = ref_auth(scripts, ro=cache, now=now)
    ctx.ran()
    if type(rv) is bool and rv is not v:
        ctx.violation({**sig, 'oracle': 'reference interpreter', 'kind': 'accepts' if v is True else 'rejects'},
                      f'{detail}: run_auth_scripts {v!r}, reference {rv}')


# ---------------------------------------------------------------- single lock
def single_case(ctx, case):
    pos, can, signer = case
    seed = ctx.seed
    sk, pk = keys(seed)
    fields = sf(seed)
    t = TNOW
    b, e = window(pos, t)
    signer_key = {'correct': 'root', 'root': 'root', 'outsider': 'outsider'}[signer]
    if signer == 'root':
        # "root instead of previous" degenerates to correct for the single lock: use a self-signed cert by the delegate instead
        signer_key = 'd1'
    c = cert(seed, 'x', signer_key, 'd1', b, e, can)
    n = 0
    for dn in (-2, -1, 0, 1):
        now = t - (THR + dn)
        env.Clock.now = now
        slack_ok = t - now < THR
        for final in ('d1', 'root', 'outsider'):
            pairs = (('00', '00'), ('01', '01'), ('01', '00'), ('00', '01'), ('80', 'fe'))
            if dn == -1 and final == 'd1':
                pairs += tuple(('%02x' % (1 << b), '%02x' % (1 << b)) for b in range(1, 8)) + \
                    tuple(('%02x' % (1 << b), '%02x' % (0xff ^ (1 << b))) for b in range(1, 8)) + (('5a', '5a'), ('a5', 'e7'))
            for fl, allowed in pairs:
                n += 1
                lock = T.make_delegate_key_lock(pk['root'], allowed).bytes
                w = T.make_delegate_key_witness(sk[final], c, dict(fields), fl).bytes
                cache = {**fields, 'timestamp': t}
                permitted = (int(fl, 16) & ~int(allowed, 16) & 0xff) == 0
                want = signer == 'correct' and in_window(pos) and slack_ok and final == 'd1' and permitted
                ctx.state(('single', pos, can, signer, dn, final, fl, allowed))
                judge(ctx, [w, lock], cache, want, {'lock': 'delegate_key_lock'},
                      f't at {pos} can={can} cert signer={signer} t-now={THR + dn} final signer={final} flag={fl} allowed={allowed}', now)
    # windows whose bounds use the top bit of their four bytes (the certificate class refuses to issue them; the lock takes any 105 bytes
    # the root signed): bounds are unsigned
    if case == ('begin', True, 'correct'):
        env.Clock.now = t
        lock = T.make_delegate_key_lock(pk['root']).bytes
        for b_, e_ in ((t - 5, 0xffffffff), (t - 5, 0x80000000), (0, 0xffffffff), (0x80000000, 0xffffffff), (0x80000000, t + 50), (0x7fffffff, 0x80000001),
                       (t - 5, 0x7fffffff), (0xffffffff, t + 50)):
            n += 1
            body = pk['d1'] + b_.to_bytes(4, 'big') + e_.to_bytes(4, 'big') + b'\x01'
            raw = body + refed.sign(sk['root'], body)
            w = T.make_delegate_key_witness(sk['d1'], raw, dict(fields)).bytes
            ctx.state(('high-bit window', b_, e_))
            judge(ctx, [w, lock], {**fields, 'timestamp': t}, b_ <= t < e_, {'lock': 'delegate_key_lock', 'window': 'bounds with the top bit set'},
                  f'hand-serialised certificate with window [{b_:#x}, {e_:#x}) at t={t}', t)
    # every single-field corruption of the certificate bytes of an accepted pair
    if case == ('begin', True, 'correct'):
        env.Clock.now = t
        lock = T.make_delegate_key_lock(pk['root']).bytes
        w = T.make_delegate_key_witness(sk['d1'], c, dict(fields)).bytes
        cache = {**fields, 'timestamp': t}
        if run(ctx, [w, lock], cache) is True:
            off = len(w) - 105
            for bi in range(105):
                n += 1
                w2 = w[:off + bi] + bytes([w[off + bi] ^ 1]) + w[off + bi + 1:]
                # flipping a window byte may keep t inside the window only if the signature still verified: it cannot
                judge(ctx, [w2, lock], cache, False, {'lock': 'delegate_key_lock', 'corruption': 'certificate byte'},
                      f'certificate byte {bi} flipped', t)
            # only a certificate is a certificate: the same bytes with one more or one less (at either end) are not
            head = w[:off - 2]           # everything before the push of the certificate
            cb = w[off:]
            for what, blob in (('one byte appended', cb + b'\x00'), ('flag-like byte appended', cb + b'\x01'), ('two bytes appended', cb + b'\x00\x00'),
                               ('one byte prepended', b'\x00' + cb), ('last byte dropped', cb[:-1]), ('first byte dropped', cb[1:])):
                n += 1
                judge(ctx, [head + P(blob), lock], cache, False, {'lock': 'delegate_key_lock', 'corruption': 'certificate length'},
                      f'certificate with {what}', t)
    ctx.evaluations += n - 1


# ---------------------------------------------------------------- chain lock
def chain_witness(seed, links, final_signer, fields, fl='00', chain='x', markers=None, order=None):
    """links: list of (signer name, delegate name, begin, end, can) from the root outwards"""
    sk, pk = keys(seed, chain)
    certs = [cert(seed, chain, s, d, b, e, c) for (s, d, b, e, c) in links]
    if order is not None:
        certs = [certs[i] for i in order]
    w = T.make_delegate_key_chain_witness(sk[final_signer], list(reversed(certs)), dict(fields), fl).bytes
    if markers is not None:
        # rebuild by hand with the given true/false markers between the certificates (first marker follows the signature)
        sig = w[:w.index(b'\x00', 60) if False else 0]
        sigpush = T.make_single_sig_witness(sk[final_signer], dict(fields), fl).bytes
        parts = [sigpush]
        rc = list(reversed(certs))
        for i, cbytes in enumerate(rc):
            parts.append(P(markers[i]) if type(markers[i]) is bytes else op('TRUE') if markers[i] else op('FALSE'))
            parts.append(P(cbytes))
        w = b''.join(parts)
    return w


def chain_model(links, final_signer, t, now, pos_list, can_list, signer_list):
    ok = True
    for i, (pos, can, sg) in enumerate(zip(pos_list, can_list, signer_list)):
        ok &= in_window(pos) and sg == 'correct'
        if i < len(pos_list) - 1:
            ok &= can
    return ok and (t - now < THR) and final_signer == 'd%d' % len(pos_list)


def build_links(seed, n, pos_list, can_list, signer_list, t):
    links = []
    for i in range(n):
        b, e = window(pos_list[i], t)
        prev = 'root' if i == 0 else 'd%d' % i
        signer = {'correct': prev, 'root': 'root' if i > 0 else 'outsider', 'outsider': 'outsider'}[signer_list[i]]
        links.append((signer, 'd%d' % (i + 1), b, e, can_list[i]))
    return links


def chain_case(ctx, case):
    n, devs = case
    seed = ctx.seed
    sk, pk = keys(seed)
    fields = sf(seed)
    t = TNOW
    pos_list, can_list, signer_list = ['begin+1'] * n, [True] * n, ['correct'] * n
    final_signer = 'd%d' % n
    now = t
    for (i, what, val) in devs:
        if what == 'pos':
            pos_list[i] = val
        elif what == 'can':
            can_list[i] = val
        elif what == 'signer':
            signer_list[i] = val
        elif what == 'final':
            final_signer = val
        elif what == 'slack':
            now = t - (THR + val)
    env.Clock.now = now
    links = build_links(seed, n, pos_list, can_list, signer_list, t)
    lock = T.make_delegate_key_chain_lock(pk['root']).bytes
    cache = {**fields, 'timestamp': t}
    w = chain_witness(seed, links, final_signer, fields)
    want = chain_model(links, final_signer, t, now, pos_list, can_list, signer_list)
    # signer deviation 'root' at link 0 is an outsider; at link i>0 "root instead of previous"
    ctx.state(('chain', n, tuple(devs)))
    judge(ctx, [w, lock], cache, want, {'lock': 'delegate_key_chain_lock', 'deviation': '+'.join(sorted({d[1] for d in devs})) or 'none'},
          f'chain length {n} deviations {devs}', now)


def chain_cases(maxlen, pairs_upto=3, triples_upto=0):
    out = []
    per_link = [('pos', p) for p in WINDOW if p != 'begin+1'] + [('can', False)] + [('signer', 'root'), ('signer', 'outsider')]
    for n in range(1, maxlen + 1):
        out.append((n, ()))
        singles = [(i, w, v) for i in range(n) for (w, v) in per_link]
        globals_ = [(0, 'final', 'root'), (0, 'final', 'outsider'), (0, 'final', 'd%d' % max(n - 1, 1)),
                    (0, 'slack', -1), (0, 'slack', 0), (0, 'slack', 1)]
        for d in singles + globals_:
            out.append((n, (d,)))
        if n <= pairs_upto:
            for a, b in itertools.combinations(singles + globals_[:2], 2):
                if a[0] == b[0] and a[1] == b[1]:
                    continue
                out.append((n, (a, b)))
        if n <= triples_upto:
            for tr in itertools.combinations(singles + globals_[:2], 3):
                if len({(x[0], x[1]) for x in tr}) == 3:
                    out.append((n, tr))
    return list(dict.fromkeys(out))


def splice_case(ctx, n):
    """cross-chain splices, reordering, inconsistent markers"""
    seed = ctx.seed
    sk, pk = keys(seed)
    sk2, pk2 = keys(seed, 'y')
    fields = sf(seed)
    t = TNOW
    env.Clock.now = t
    cache = {**fields, 'timestamp': t}
    lock = T.make_delegate_key_chain_lock(pk['root']).bytes
    good = build_links(seed, n, ['begin+1'] * n, [True] * n, ['correct'] * n, t)
    cnt = 0
    # certificate i replaced by the same-position certificate of a chain under another root / other intermediate keys
    for i in range(n):
        cnt += 1
        sk_, pk_ = keys(seed, 'x')
        certs = [cert(seed, 'x', s, d, b, e, c) for (s, d, b, e, c) in good]
        certs[i] = cert(seed, 'y', good[i][0], good[i][1], good[i][2], good[i][3], good[i][4])
        w = T.make_delegate_key_chain_witness(sk['d%d' % n], list(reversed(certs)), dict(fields)).bytes
        ctx.state(('splice', n, i))
        judge(ctx, [w, lock], cache, False, {'lock': 'delegate_key_chain_lock', 'deviation': 'cross-chain splice'},
              f'chain {n}: certificate {i} taken from another chain', t)
    # a witness that brings its own function definitions (the chain lock keeps its checks in functions): the lock's own definitions
    # are the ones that run - an honest chain still unlocks, nothing else does
    blk = lambda b: len(b).to_bytes(2, 'big') + b
    honest = chain_witness(seed, good, 'd%d' % n, fields)
    foreign = chain_witness(seed, good, 'd%d' % n, fields, chain='y') if n <= 3 else None
    for h in (0, 1, 2):
        for bname, body in (('true', op('TRUE')), ('pop0 true', op('POP0') + op('TRUE')), ('empty', b''), ('return', op('TRUE') + op('RETURN'))):
            d = op('DEF') + bytes([h]) + blk(body)
            for wname, wbytes, want in (('honest chain', d + honest, True), ('nothing else', d, False), ('a true', d + op('TRUE'), False),
                                        ('chain under a foreign root', None if foreign is None else d + foreign, False)):
                if wbytes is None:
                    continue
                cnt += 1
                ctx.state(('own definitions', n, h, bname, wname))
                judge(ctx, [wbytes, lock], cache, want, {'lock': 'delegate_key_chain_lock', 'deviation': 'witness defines function'},
                      f'chain {n}: witness defines function {h} as {{{bname}}} and supplies {wname}', t)
    if n >= 2:
        for order in itertools.permutations(range(n)):
            if list(order) == list(range(n)) or (n > 3 and order[0] == 0 and order[-1] == n - 1 and n > 4):
                continue
            cnt += 1
            w = chain_witness(seed, good, 'd%d' % n, fields, order=order)
            ctx.state(('order', n, order))
            judge(ctx, [w, lock], cache, False, {'lock': 'delegate_key_chain_lock', 'deviation': 'certificates reordered'},
                  f'chain {n}: order {order}', t)
    # markers inconsistent with the number of certificates (honest pattern: F then T...T)
    honest = tuple([False] + [True] * (n - 1))
    for markers in itertools.product((False, True), repeat=n):
        cnt += 1
        w = chain_witness(seed, good, 'd%d' % n, fields, markers=markers)
        ctx.state(('markers', n, markers))
        want = markers == honest
        judge(ctx, [w, lock], cache, want, {'lock': 'delegate_key_chain_lock', 'deviation': 'marker pattern'},
              f'chain {n}: markers {markers}', t)
    # hand-made multi-byte markers cannot make a certificate that forbids further delegation pass as a non-final link
    if n >= 2:
        for bad_at in range(n - 1):
            links = [(s_, d_, b_, e_, (c_ if i != bad_at else False)) for i, (s_, d_, b_, e_, c_) in enumerate(good)]
            for mk in (b'\xff\xff', b'\x00\xff', b'\x00\x01', b'\x01\x01\x01\x01', b'\xff\x00', b'\xff' * 33):
                cnt += 1
                markers = tuple([False] + [mk] * (n - 1))
                w = chain_witness(seed, links, 'd%d' % n, fields, markers=markers)
                ctx.state(('wide-markers', n, bad_at, mk))
                judge(ctx, [w, lock], cache, False, {'lock': 'delegate_key_chain_lock', 'deviation': 'multi-byte marker over a non-delegable link'},
                      f'chain {n}: link {bad_at} forbids delegation, markers {mk.hex()}', t)
    # a chain that is a proper prefix: final signature by an intermediate delegate with fewer certificates
    for m in range(1, n):
        cnt += 1
        w = chain_witness(seed, good[:m], 'd%d' % m, fields)
        judge(ctx, [w, lock], cache, True, {'lock': 'delegate_key_chain_lock', 'deviation': 'prefix chain'},
              f'chain prefix {m} of {n}', t)
    ctx.evaluations += max(cnt - 1, 0)


def threshold_case(ctx, case):
    """verifier-chosen slack threshold (run_script additional_flags) governs both locks, also inside the chain lock's calls"""
    n, thr = case
    seed = ctx.seed
    sk, pk = keys(seed)
    fields = sf(seed)
    t = TNOW
    cnt = 0
    if n == 0:
        b, e = window('begin+1', t)
        c = cert(seed, 'x', 'root', 'd1', b, e, True)
        lock = T.make_delegate_key_lock(pk['root']).bytes
        w = T.make_delegate_key_witness(sk['d1'], c, dict(fields)).bytes
    else:
        links = build_links(seed, n, ['begin+1'] * n, [True] * n, ['correct'] * n, t)
        lock = T.make_delegate_key_chain_lock(pk['root']).bytes
        w = chain_witness(seed, links, 'd%d' % n, fields)
    for d in (-2, -1, 0, 1, 50):
        now = t - (max(thr, 0) + d)
        env.Clock.now = now
        cnt += 1
        want = thr <= 0 or (t - now < thr)
        try:
            _, stack, _ = F.run_script(w + lock, {**fields, 'timestamp': t}, additional_flags={'ts_threshold': thr})
            got = stack.list() == [b'\xff']
        except BaseException:
            got = False
        ctx.ran()
        ctx.trans(2)
        ctx.state(('thr', n, thr, d))
        ctx.outcome('thr:%s' % got)
        if got is not want:
            ctx.violation({'lock': 'delegate_key_lock' if n == 0 else 'delegate_key_chain_lock', 'clause': 'verifier slack threshold',
                           'kind': 'accepts' if got else 'rejects'},
                          f'chain length {n} ts_threshold={thr} t-now={t - now}: {got}, model {want}')
        from mc.diff import compare
        r = compare(w + lock, ro={**fields, 'timestamp': t}, flags={'ts_threshold': thr}, now=now)
        if r.verdict == 'viol':
            ctx.violation({'lock': 'delegate_key_lock' if n == 0 else 'delegate_key_chain_lock', 'clause': 'verifier slack threshold',
                           'oracle': 'reference interpreter'}, f'chain length {n} ts_threshold={thr} t-now={t - now}: {r.detail[:300]}')
    ctx.evaluations += cnt - 1


def zero_ts_case(ctx, case):
    """execution timestamp 0 (the lowest one there is) is a timestamp like any other, for the single and the chain lock"""
    now, (b, e) = case[0], case[1]
    seed = ctx.seed
    sk, pk = keys(seed)
    fields = sf(seed)
    t = case[2] if len(case) > 2 else 0
    env.Clock.now = now
    want = b <= t < e and t - now < THR
    n = 0
    c1 = cert(seed, 'x', 'root', 'd1', b, e, True)
    for name, lock, w in (('delegate_key_lock', T.make_delegate_key_lock(pk['root']).bytes,
                           T.make_delegate_key_witness(sk['d1'], c1, dict(fields)).bytes),
                          ('delegate_key_chain_lock', T.make_delegate_key_chain_lock(pk['root']).bytes,
                           T.make_delegate_key_chain_witness(sk['d1'], [c1], dict(fields)).bytes)):
        n += 1
        ctx.state(('zero-ts', now, b, e, name))
        judge(ctx, [w, lock], {**fields, 'timestamp': t}, want, {'lock': name, 'block': 'timestamp zero'},
              f'window [{b}, {e}) at t={t} with the clock at {now}', now)
    ctx.evaluations += n - 1


# ---------------------------------------------------------------- certificate serialisation
VALS = [0, 1, 127, 128, 255, 256, 32767, 32768, 65535, 65536, 2 ** 24 - 1, 2 ** 24, 2 ** 31 - 1]


def clock_history_case(ctx, case):
    """the execution timestamp is not given by the embedder (the run takes the verifier clock): verifications made one after
    the other with the clock moving - the same fields dict reused, a fresh one, no cache at all - each see the clock of their own
    call; the caller's dict is left as it was"""
    lockkind, form, steps = case
    seed = ctx.seed
    sk, pk = keys(seed)
    fields = sf(seed) if form != 'no cache argument' else {}
    b, e = TNOW, TNOW + 1000
    if lockkind == 'single':
        c = cert(seed, 'x', 'root', 'd1', b, e, True)
        lock = T.make_delegate_key_lock(pk['root']).bytes
        w = T.make_delegate_key_witness(sk['d1'], c, dict(fields)).bytes
    else:
        links = [('root', 'd1', b, e, True), ('d1', 'd2', b, e, True)]
        lock = T.make_delegate_key_chain_lock(pk['root']).bytes
        w = chain_witness(seed, links, 'd2', dict(fields))
    reused = dict(fields)
    for i, dt in enumerate(steps):
        now = TNOW + dt
        env.Clock.now = now
        if form == 'same dict reused':
            given = reused
        elif form == 'fresh dict':
            given = dict(fields)
        else:
            given = None
        before = dict(given) if given is not None else None
        try:
            v = F.run_auth_scripts([w, lock], given) if given is not None else F.run_auth_scripts([w, lock])
        except BaseException as ex:
            v = ex
        ctx.ran()
        ctx.trans(2)
        ctx.state(('clock history', lockkind, form, steps, i))
        rv, _ = ref_auth([w, lock], ro={**fields, 'timestamp': now}, now=now)
        ctx.ran()
        ctx.outcome('history:%s' % (v if type(v) is bool else 'raised'))
        if type(rv) is bool and v is not rv:
            ctx.violation({'lock': lockkind, 'block': 'clock histories', 'form': form, 'kind': 'accepts' if v is True else 'rejects'},
                          f'{lockkind} lock, window [{b}, {e}), call {i + 1} of clocks {[TNOW + d for d in steps]} ({form}): '
                          f'run_auth_scripts {v!r}, on its own {rv}')
        if given is not None and given != before:
            ctx.violation({'lock': lockkind, 'block': 'clock histories', 'clause': 'the caller\'s dict is left as it was'},
                          f'{form}: {sorted(set(given) - set(before))} added')


def cert_case(ctx, begin):
    n = 0
    Cert = T.Certificate
    for end in VALS:
        for can in (True, False):
            for kp in (b'\x00' * 32, b'\xff' * 32, bytes(range(32))):
                n += 1
                sigb = bytes([(begin + end) % 251]) * 64
                c = Cert(kp, begin, end, can, sigb)
                ctx.state(('cert', begin, end, can, kp[:1]))
                try:
                    p = c.pack()
                    c2 = Cert.unpack(p)
                except BaseException as e:
                    ctx.violation({'clause': 'certificate pack/unpack round trip', 'how': 'raises'}, f'{begin} {end} {can}: {e!r}')
                    continue
                ctx.ran(2)
                ctx.trans(2)
                want = kp + begin.to_bytes(4, 'big') + end.to_bytes(4, 'big') + (b'\xff' if can else b'\x00') + sigb
                if p != want or (c2.delegate_pubkey, c2.begin_ts, c2.end_ts, c2.can_further_delegate, c2.signature) != (kp, begin, end, can, sigb):
                    ctx.violation({'clause': 'certificate pack/unpack round trip'}, f'{begin} {end} {can}: {p.hex()}')
    # object histories: a certificate issued by the builder (which already asked it for its preimage), then one field edited:
    # preimage / pack / the witness builders follow the object's current fields, nothing is remembered from before
    seed = ctx.seed
    sk, pk = keys(seed)
    for field_, newval in ((('begin_ts', begin + 1), ('end_ts', begin + 7), ('can_further_delegate', False),
                            ('delegate_pubkey', pk['d2']), ('signature', b'\x07' * 64)) if begin + 7 < 2 ** 31 else ()):
        n += 1
        c = T.make_delegate_key_cert(sk['root'], pk['d1'], begin, begin + 5, True)
        c.preimage(); c.pack()
        try:
            setattr(c, field_, newval)
        except BaseException:
            continue                      # an immutable certificate cannot go stale
        ctx.state(('cert-history', begin, field_))
        try:
            pre, packed = c.preimage(), c.pack()
            c2 = Cert.unpack(packed)
        except BaseException as e:
            if field_ in ('begin_ts', 'end_ts') and not 0 <= newval < 2 ** 31:
                continue
            ctx.violation({'clause': 'certificate pack/unpack round trip', 'how': 'raises', 'history': 'field edited after issuing'},
                          f'{field_} <- {newval!r}: {e!r}')
            continue
        ctx.ran(3)
        want_pre = c.delegate_pubkey + c.begin_ts.to_bytes(4, 'big') + c.end_ts.to_bytes(4, 'big') + (b'\xff' if c.can_further_delegate else b'\x00')
        now_ = (c2.delegate_pubkey, c2.begin_ts, c2.end_ts, c2.can_further_delegate, c2.signature)
        if pre != want_pre or packed != want_pre + c.signature or \
                now_ != (c.delegate_pubkey, c.begin_ts, c.end_ts, c.can_further_delegate, c.signature):
            ctx.violation({'clause': 'certificate pack/unpack round trip', 'history': 'field edited after issuing'},
                          f'begin {begin}: {field_} <- {newval!r}: preimage {pre.hex()} packed {packed.hex()[:90]}')
    for bad in (-1, 2 ** 31, 2 ** 32):
        for which in ('begin', 'end'):
            n += 1
            c = Cert(b'\x01' * 32, bad if which == 'begin' else 5, bad if which == 'end' else 6, True, b'\x02' * 64)
            try:
                c.pack()
                ctx.violation({'clause': 'out-of-range certificate fields are refused'}, f'{which}={bad}')
            except (ValueError, TypeError, OverflowError):
                pass
    ctx.evaluations += n - 1


def blocks(tier, seed):
    q = tier == 'quick'
    maxlen = 4 if q else 12
    singles = [(p, c, s) for p in WINDOW for c in (True, False) for s in SIGNERS]
    cc = chain_cases(maxlen, 3 if q else 12, 0 if q else 5)
    return [
        Block('single_lock_product', singles, single_case,
              'window position x may-delegate x certificate signer x clock slack {58..61} x final signer x 5 flag/allowed pairs; all '
              'certificate byte flips', nshards=len(singles)),
        Block('chain_lock_deviations', cc, chain_case,
              'chain lengths 1..%d: all-good, every single-link deviation at every position, all pairs for length <= %d%s' % (maxlen, 3 if q else 12, '' if q else ', all triples for length <= 5'),
              nshards=min(len(cc), 128)),
        Block('chain_splices_orders_markers', list(range(1, (4 if q else 6) + 1)), splice_case,
              'cross-chain splices, all certificate orders, all marker patterns, prefix chains', nshards=8),
        Block('custom_slack_threshold', [(n, thr) for n in range(0, 4 if q else 6) for thr in (10, 300, 61, 0, -1)], threshold_case,
              'single and chain locks (length 1..%d) through run_script with additional_flags ts_threshold in {10, 61, 300, 0, -1} x clock '
              'positions around it' % (3 if q else 5), nshards=32),
        Block('timestamp_zero', [(now, w) for now in (0, 30, 1000, TNOW) for w in ((0, 1000), (0, 1), (1, 1000), (0, 0), (TNOW - 100, TNOW + 100))] +
              [(TNOW - d, (b0, 2 ** 31 - 1), TNOW) for d in (0, 59, 60, 3600, 86400) for b0 in (0, 1, 255, 256)],
              zero_ts_case, 'execution timestamp 0 x clock {0, 30, 1000, now} x five windows; windows beginning at 0 / 1 / 255 / 256 with the timestamp 0..86400 s ahead of the clock; single and chain lock', nshards=20),
        Block('clock_histories_without_embedder_timestamp',
              [(lk, fm, st) for lk in ('single', 'chain') for fm in ('same dict reused', 'fresh dict', 'no cache argument')
               for st in ((500, 1000), (500, 999, 1000, 1500), (-1, 0), (1500, 500), (0, 0), (999, -5, 500))], clock_history_case,
              'single / chain lock x 3 ways of not passing a timestamp x 6 clock sequences across the window edges', nshards=12),
        Block('certificate_serialisation', VALS, cert_case, 'begin x end over boundary values x flag x key patterns; issued certificates with one field edited afterwards', nshards=len(VALS)),
    ]


def meta(tier, seed):
    assert refed.selftest()
    q = tier == 'quick'
    return dict(
        rule='products of per-link settings executed through the real builders and run_auth_scripts with a pinned virtual clock; two '
             'oracles (delegation model from the statement, ref.refvm on the same bytes)',
        states_meaning='distinct (lock kind, per-link settings, clock, signer, flags) cases; transitions = scripts run',
        bounds={'chain_length': 4 if q else 12, 'slack_threshold': THR},
        assumptions=['run_auth_scripts cannot change ts_threshold: the default slack 60 is used',
                     'Ed25519 unforgeability for the rejection direction'],
    )
