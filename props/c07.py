"""C07 - stack, item-size, call-depth, loop and tape limits hold at every step.

Resource-hungry programs are enumerated completely (sequences of statements x all small limit
triples) and run on the real VM with instrumented containers (mc.monitor): the invariants are
evaluated at every container mutation, every tape read and every dispatched instruction.
"""
import itertools
import json
import os
import subprocess
import sys
import tracemalloc

from mc import spaces, env, monitor
from mc.diff import run_ref, ref_auth
from mc.run import Block
from ref.optable import op, push

F = env.functions
SEE = env.errors.ScriptExecutionError


def blk(b):
    return len(b).to_bytes(2, 'big') + b


def P(b):
    return push(b) if len(b) else b'\x03\x00'


def stmts(limits):
    """statement alphabet rendered for a limit triple (pushes sized around max_item_size)"""
    mi, ms, cl = limits
    s = {}
    s['P1'] = P(b'\x07')
    s['P2'] = P(b'\x01\x02')
    s['Pmax'] = P(b'\x05' * ms)
    s['Pmax+1'] = P(b'\x06' * (ms + 1))
    s['T'] = op('TRUE')
    s['DUP'] = op('DUP')
    s['COPY0'] = op('COPY') + b'\x00'
    s['COPY1'] = op('COPY') + b'\x01'
    s['COPY255'] = op('COPY') + b'\xff'
    s['CONCAT'] = op('CONCAT')
    s['RCACHE'] = op('READ_CACHE') + b'\x01k'
    s['REV2'] = op('REVERSE') + b'\x02'
    s['REV255'] = op('REVERSE') + b'\xff'
    s['SWAP01'] = op('SWAP') + b'\x00\x01'
    s['SWAP0x'] = op('SWAP') + bytes([0, min(mi, 255)])
    s['LOOP{DUP}'] = op('LOOP') + blk(op('DUP'))
    s['LOOP{P1}'] = op('LOOP') + blk(s['P1'])
    s['LOOP{DUP CONCAT..}'] = op('LOOP') + blk(op('DUP') + op('CONCAT') + op('DUP'))
    s['REC_CALL'] = op('DEF') + b'\x00' + blk(op('CALL') + b'\x00') + op('CALL') + b'\x00'
    s['REC_CALL_PUSH'] = op('DEF') + b'\x01' + blk(s['P1'] + op('CALL') + b'\x01') + op('CALL') + b'\x01'
    s['SELF_EVAL'] = P(op('DUP') + op('EVAL')) + op('DUP') + op('EVAL')
    s['IF{IF{P1}}'] = op('TRUE') + op('IF') + blk(op('TRUE') + op('IF') + blk(s['P1']))
    s['TRY{REC}'] = op('TRY_EXCEPT') + blk(s['REC_CALL']) + blk(s['P1'])
    s['WCACHE2'] = op('WRITE_CACHE') + b'\x01w\x02'
    s['POP1_255'] = op('POP1') + b'\xff'
    s['SHA256'] = op('SHA256')
    s['MULT2'] = op('MULT_INTS') + b'\x02'
    s['DEPTH'] = op('DEPTH')
    s['SIZE'] = op('SIZE')
    s['NOT'] = op('NOT')
    s['GETMSG'] = op('GET_MESSAGE') + b'\x00'
    s['FILL'] = op('TRUE') * (min(mi, 300) + 1)
    # items that did not come from the stack: the error record of a failed TRY, read back from the cache
    s['TRYFAIL @E'] = op('TRY_EXCEPT') + blk(op('FALSE') + op('VERIFY')) + blk(b'') + op('READ_CACHE') + b'\x01E'
    s['TRY{GETV long} @E'] = op('TRY_EXCEPT') + blk(op('GET_VALUE') + bytes([200]) + b'k' * 200) + blk(b'') + op('READ_CACHE') + b'\x01E'
    s['LOOP{CALL}'] = op('DEF') + b'\x02' + blk(b'') + op('TRUE') + op('LOOP') + blk(op('CALL') + b'\x02')
    return s


NAMES = list(stmts((4, 4, 4)))
SMALL_LIMITS = [(a, b, c) for a in (1, 2, 3, 4) for b in (1, 2, 4, 8) for c in (1, 2, 3, 4)] + [(1024, 1024, 128)]
CACHE0 = {b'k': [b'\x01', b'\x02', b'\x03'], 'sigfield1': b'0123456789'}


def check_run(ctx, script, limits, sig, compare_ref=True):
    mon, exc, stack, cache = monitor.run_monitored(script, limits, cache=CACHE0)
    ctx.ran()
    ctx.trans(mon.instr)
    for inv, detail in mon.problems:
        ctx.violation({**sig, 'invariant': inv}, f'script {script.hex()} limits {limits}: {detail}')
    if isinstance(exc, monitor.Horizon):
        ctx.violation({**sig, 'invariant': 'run does not end (instruction horizon)'}, f'script {script.hex()} limits {limits}')
        return mon
    if isinstance(exc, (RecursionError, MemoryError, SystemError, env.HugeAllocation)):
        ctx.violation({**sig, 'invariant': 'interpreter-level failure', 'exc': type(exc).__name__},
                      f'script {script.hex()} limits {limits}: {exc!r}')
        return mon
    for n in env.Rand.log:
        if n > max(limits[1], 0):
            ctx.violation({**sig, 'invariant': 'allocation request larger than max_item_size', 'op': 'OP_RANDOM'},
                          f'script {script.hex()} limits {limits}: requested {n} bytes')
    env.Rand.log.clear()
    ctx.outcome('ok' if exc is None else type(exc).__name__)
    if not compare_ref:
        return mon
    ro = {k: v for k, v in CACHE0.items() if type(k) is str}
    c0 = {k: v for k, v in CACHE0.items() if type(k) is bytes}
    ref, e = run_ref([script], ro, c0, None, limits, None, int(env.Clock.now))
    ctx.ran()
    if ref[0] == 'unspec':
        ctx.unspec(ref[1])
    elif ref[0] == 'error':
        if exc is None:
            ctx.violation({**sig, 'invariant': 'limit/err outcome', 'ref': ref[1].split(':')[0]},
                          f'script {script.hex()} limits {limits}: reference error({ref[1]}), implementation finished with stack {stack}')
        elif ref[1].startswith('limit:') and not isinstance(exc, SEE):
            ctx.violation({**sig, 'invariant': 'limit violation must surface as ScriptExecutionError', 'exc': type(exc).__name__},
                          f'script {script.hex()} limits {limits}: reference {ref[1]}, implementation raised {exc!r}')
        if ref[1].startswith('limit:'):
            try:
                a = F.run_auth_scripts([script], dict(CACHE0), stack_max_items=limits[0], stack_max_item_size=limits[1],
                                       callstack_limit=limits[2])
            except BaseException as ex:
                a = ex
            if a is not False:
                ctx.violation({**sig, 'invariant': 'authorization False when a limit is exceeded'},
                              f'script {script.hex()} limits {limits}: {a!r}')
    else:
        if exc is not None:
            ctx.violation({**sig, 'invariant': 'spurious failure', 'exc': type(exc).__name__},
                          f'script {script.hex()} limits {limits}: reference ok, implementation raised {exc!r}')
    return mon


def family_a(ctx, case):
    names, limits = case
    st = stmts(limits)
    script = b''.join(st[n] for n in names)
    ctx.state((script, limits))
    mon = check_run(ctx, script, limits, {'family': 'A'})
    ctx.state(('hw', mon.hw_items, mon.hw_item, mon.max_depth, mon.max_loop_iters))


FEW_LIMITS = [(1, 1, 1), (2, 2, 2), (2, 8, 1), (3, 4, 2), (4, 1, 4), (4, 8, 4), (1, 8, 3), (3, 2, 1), (1024, 1024, 128)]


def family_a_cases(maxlen, shard, nshards, full_upto):
    """sequences of <= full_upto statements under every limit triple, longer ones under FEW_LIMITS"""
    i = 0
    for n in range(1, maxlen + 1):
        lims = SMALL_LIMITS if n <= full_upto else FEW_LIMITS
        for names in itertools.product(NAMES, repeat=n):
            if i % nshards == shard:
                for lim in lims:
                    yield (names, lim)
            i += 1


REC_KINDS = ('plain', 'IF', 'IFELSE_T', 'IFELSE_F', 'TRY', 'EXCEPT', 'LOOP')


def through(kind, inner):
    if kind == 'plain':
        return inner
    if kind == 'IF':
        return op('TRUE') + op('IF') + blk(inner)
    if kind == 'IFELSE_T':
        return op('TRUE') + op('IF_ELSE') + blk(inner) + blk(b'')
    if kind == 'IFELSE_F':
        return op('FALSE') + op('IF_ELSE') + blk(b'') + blk(inner)
    if kind == 'TRY':
        return op('TRY_EXCEPT') + blk(inner) + blk(b'')
    if kind == 'EXCEPT':
        return op('TRY_EXCEPT') + blk(op('FALSE') + op('VERIFY')) + blk(inner)
    if kind == 'LOOP':
        return op('TRUE') + op('LOOP') + blk(op('POP0') + inner + op('FALSE')) + op('POP0')
    raise ValueError(kind)


def recursion_cases():
    """unbounded recursion routed through every construct kind (and pairs of kinds), by CALL and by self-EVAL"""
    out = []
    chains = [(k,) for k in REC_KINDS] + [(a, b) for a in REC_KINDS[1:] for b in REC_KINDS[1:]]
    for ch in chains:
        inner = op('CALL') + b'\x00'
        for k in reversed(ch):
            inner = through(k, inner)
        out.append(('CALL via ' + '>'.join(ch), op('DEF') + b'\x00' + blk(inner) + op('CALL') + b'\x00'))
        inner = op('DUP') + op('EVAL')
        for k in reversed(ch):
            inner = through(k, inner)
        out.append(('EVAL via ' + '>'.join(ch), P(inner) + op('DUP') + op('EVAL')))
    # a committed script that spends itself again through OP_TAPROOT (its own bytes, the key and the root come from the cache)
    import hashlib
    from ref import refed
    kpub = refed.public_key(b'\x07' * 32)
    for ch in [()] + [(k,) for k in REC_KINDS[1:]]:
        inner = op('READ_CACHE') + b'\x01s' + op('READ_CACHE') + b'\x01k' + op('READ_CACHE') + b'\x01r' + op('TAPROOT') + b'\x00'
        for k in reversed(ch):
            inner = through(k, inner)
        tw = refed.clamp_scalar(hashlib.sha256(kpub + hashlib.sha256(inner).digest()).digest())
        root = refed.add_enc(refed.scalarmult_base_noclamp(tw), kpub)
        setup = P(inner) + op('WRITE_CACHE') + b'\x01s\x01' + P(kpub) + op('WRITE_CACHE') + b'\x01k\x01' + P(root) + op('WRITE_CACHE') + b'\x01r\x01'
        out.append(('TAPROOT via self-spend' + ('>' + '>'.join(ch) if ch else ''), setup + inner))
    # re-entrant function: each activation first makes a self-call that returns at once (the callee's tape is the caller's
    # own, still running, tape), then the nesting self-call - the depth must still be bounded by the limit
    for ch in [()] + [(k,) for k in REC_KINDS[1:]]:
        nest = op('FALSE') + op('CALL') + b'\x00'
        for k in reversed(ch):
            nest = through(k, nest)
        body = op('IF') + blk(op('RETURN')) + op('TRUE') + op('CALL') + b'\x00' + nest
        out.append(('CALL via returning-self-call' + ('>' + '>'.join(ch) if ch else ''),
                    op('DEF') + b'\x00' + blk(body) + op('FALSE') + op('CALL') + b'\x00'))
    return out


def family_rec(ctx, case):
    name, script = case
    n = 0
    for cl in (1, 2, 3, 4, 16):
        for mi in (4, 1024):
            limits = (mi, 1024, cl)
            n += 1
            ctx.state((script, limits))
            mon = check_run(ctx, script, limits, {'family': 'A2 recursion through constructs', 'via': name.split(' via ')[1].split('>')[-1]})
            ctx.state(('hw', mon.max_depth, cl))
            if mon.max_depth > cl:
                ctx.violation({'family': 'A2 recursion through constructs', 'invariant': 'CALL/EVAL nesting deeper than the call-stack limit',
                               'via': name.split(' via ')[1].split('>')[-1]}, f'{name} limits {limits}: depth {mon.max_depth}')
    ctx.evaluations += n - 1


def loop_depth_cases():
    """a never-ending loop placed under every chain (length <= 3) of CALL / EVAL / IF / TRY / EXCEPT levels"""
    out = []
    loop = op('TRUE') + op('LOOP') + blk(op('NOT') + op('NOT'))
    kinds = ('CALL', 'EVAL', 'IF', 'TRY', 'EXCEPT')
    for d in range(0, 4):
        for ch in itertools.product(kinds, repeat=d):
            inner = loop
            defs = b''
            for lvl, k in enumerate(reversed(ch)):
                if k == 'CALL':
                    h = bytes([0x40 + lvl])
                    inner = op('DEF') + h + blk(inner) + op('CALL') + h
                elif k == 'EVAL':
                    inner = P(inner) + op('EVAL')
                else:
                    inner = through(k, inner)
            out.append(('>'.join(ch) or 'top', inner))
    return out


def family_loop_depth(ctx, case):
    name, script = case
    n = 0
    for cl in (1, 2, 3, 5, 16):
        limits = (64, 1024, cl)
        n += 1
        ctx.state((script, limits))
        mon = check_run(ctx, script, limits, {'family': 'A3 loops at call depth', 'under': name.split('>')[-1]})
        if mon.max_loop_iters > cl:
            ctx.violation({'family': 'A3 loops at call depth', 'invariant': 'loop body ran more often than the call-stack limit',
                           'under': name.split('>')[-1]}, f'loop under {name} limits {limits}: {mon.max_loop_iters} iterations')
        # the same script as a later script of run_auth_scripts after earlier scripts spent call budget
        spend = op('DEF') + b'\x7f' + blk(b'') + (op('CALL') + b'\x7f') * min(cl - 1, 3)
        mon2, exc2, _, _ = monitor.run_monitored(spend + script, limits, cache=CACHE0)
        ctx.ran()
        if mon2.max_loop_iters > cl:
            ctx.violation({'family': 'A3 loops at call depth', 'invariant': 'loop body ran more often than the call-stack limit',
                           'under': 'after earlier calls'}, f'loop under {name} after {min(cl - 1, 3)} calls, limits {limits}: '
                          f'{mon2.max_loop_iters} iterations')
    ctx.evaluations += n - 1


def family_later(ctx, case):
    """the limits given to run_auth_scripts bind every script of the list, not only the first"""
    name, script = case
    n = 0
    for pos in (1, 2):
        scripts = [op('TRUE')] * pos + [script]
        for cl in (1, 2, 3, 5, 16):
            for mi, ms in ((1024, 1024), (3, 4)):
                limits = (mi, ms, cl)
                n += 1
                ctx.state((script, pos, limits))
                mon, v = monitor.run_monitored_auth(scripts, limits, cache=CACHE0)
                ctx.ran()
                ctx.trans(mon.instr)
                sig = {'family': 'A4 later scripts', 'position': pos}
                for inv, detail in mon.problems:
                    ctx.violation({**sig, 'invariant': inv}, f'{name} as script {pos} limits {limits}: {detail}')
                if mon.max_loop_iters > cl or mon.max_depth > cl:
                    ctx.violation({**sig, 'invariant': 'call-stack limit binds later scripts'},
                                  f'{name} as script {pos} limits {limits}: depth {mon.max_depth}, loop iterations {mon.max_loop_iters}')
                ctx.outcome('later:%s' % (v if type(v) is bool else type(v).__name__))
                ro = {k: x for k, x in CACHE0.items() if type(k) is str}
                c0 = {k: x for k, x in CACHE0.items() if type(k) is bytes}
                want, _ = ref_auth(scripts, ro=ro, limits=limits, cache0=c0, now=int(env.Clock.now))
                ctx.ran()
                if type(want) is not bool:
                    ctx.unspec(want[1])
                elif v is not want:
                    ctx.violation({**sig, 'invariant': 'authorization verdict under the limits'},
                                  f'{name} as script {pos} limits {limits}: run_auth_scripts {v!r}, reference {want}')
    ctx.evaluations += n - 1


def family_deprecated(ctx, name):
    """the deprecated single-script entry point enforces the same three limits as run_auth_scripts"""
    n = 0
    for limits in [(2, 8, 3), (8, 2, 3), (3, 64, 2), (64, 3, 2), (1, 1, 1), (5, 1024, 128), (1024, 5, 128)]:
        st = stmts(limits)
        for tail in (b'', op('TRUE'), op('POP1') + bytes([min(limits[0], 255)]), op('POP1') + bytes([min(limits[0], 255)]) + op('TRUE')):
            script = st[name] + tail
            n += 1
            ctx.state(('deprecated', name, limits, tail))
            res = []
            for fn, arg in ((F.run_auth_scripts, [script]), (F.run_auth_script, script)):
                try:
                    res.append(fn(arg, dict(CACHE0), {}, {}, limits[0], limits[1], limits[2]))
                except BaseException as e:
                    res.append(type(e).__name__)
                try:
                    res.append(fn(arg, dict(CACHE0), stack_max_items=limits[0], stack_max_item_size=limits[1], callstack_limit=limits[2]))
                except BaseException as e:
                    res.append(type(e).__name__)
            ctx.ran(4)
            ctx.trans(4)
            ctx.outcome('dep:%s' % (res[0],))
            if len(set(map(repr, res))) != 1:
                ctx.violation({'family': 'A5 deprecated entry point', 'invariant': 'run_auth_script enforces the same limits as run_auth_scripts'},
                              f'{name} + {tail.hex()} limits {limits}: run_auth_scripts pos/kw {res[0]!r}/{res[1]!r}, run_auth_script pos/kw {res[2]!r}/{res[3]!r}')
    ctx.evaluations += n - 1


def family_bitwise(ctx, case):
    """every instruction that pads / combines two items of different lengths ends (and stays inside the item-size limit)"""
    name, la, lb, limits = case
    script = P(b'\x3c' * la) + P(b'\xf0' * lb) + op(name) + (b'\x02' if name == 'ADD_INTS' else b'')
    ctx.state((name, la, lb, limits))
    check_run(ctx, script, limits, {'family': 'F operands of different lengths', 'op': name})


def family_b(ctx, names):
    """every byte-prefix of the program (truncated operands) under the default limits"""
    lim = (1024, 1024, 128)
    st = stmts((4, 4, 4))
    full = b''.join(st[n] for n in names)
    n = 0
    for cut in range(1, len(full)):
        n += 1
        ctx.state((full[:cut], 'prefix'))
        check_run(ctx, full[:cut], lim, {'family': 'B truncation'})
    ctx.evaluations += max(n - 1, 0)


def family_b2(ctx, case):
    """malformed byte strings derived from every <=2-node control program (prefixes, perturbed lengths/opcodes)"""
    p, kind, pos, code = case
    ctx.state((code, kind))
    check_run(ctx, code, (1024, 1024, 128), {'family': 'B2 malformed control programs'})


HUGE = [2 ** 16, 2 ** 20, 2 ** 24, 2 ** 31, 2 ** 63, -1, -(2 ** 31)]


def enc_int(n):
    ln = (n.bit_length() + 8) // 8 if n >= 0 else ((-n - 1).bit_length() + 8) // 8
    return n.to_bytes(max(ln, 1), 'big', signed=True)


def huge_cases():
    """every instruction that takes a count / size / index from the stack or the tape x huge values"""
    out = []
    item = P(b'\x01' * 8)
    for v in HUGE:
        e = enc_int(v)
        u = abs(v).to_bytes(max((abs(v).bit_length() + 7) // 8, 1), 'big')
        out.append(('RANDOM', P(e) + op('RANDOM')))
        out.append(('SPLIT', item + P(e) + op('SPLIT')))
        out.append(('SPLIT_STR', item + P(e) + op('SPLIT_STR')))
        out.append(('INVOKE', item + P(e) + P(b'c1') + op('INVOKE')))
        out.append(('CHECK_TRANSFER', item * 3 + P(u) + P(b'd') + P(b'') + P(b'\x01') + P(b'c2') + op('CHECK_TRANSFER')))
        out.append(('INT_TO_FLOAT', P(e) + op('INT_TO_FLOAT')))
        out.append(('MULT_INTS', P(e) + P(e) + P(e) + op('MULT_INTS') + b'\x03'))
        out.append(('READ_CACHE_STACK', P(e) + op('READ_CACHE_STACK')))
    for c in (128, 254, 255):
        b = bytes([c])
        out.append(('COPY', item + op('COPY') + b))
        out.append(('SHAKE256', item + op('SHAKE256') + b))
        out.append(('POP1', item + op('POP1') + b))
        out.append(('REVERSE', item + op('REVERSE') + b))
        out.append(('ADD_INTS', item + op('ADD_INTS') + b))
        out.append(('NOP', item + bytes([200]) + b))
        out.append(('WRITE_CACHE', item + op('WRITE_CACHE') + b'\x01k' + b))
        out.append(('PUSH1', op('PUSH1') + b))
        out.append(('SWAP', item + op('SWAP') + b + b'\x00'))
    for ln in (0x8000, 0xfffd, 0xffff):
        out.append(('PUSH2', op('PUSH2') + ln.to_bytes(2, 'big')))
        out.append(('PUSH2', op('PUSH2') + ln.to_bytes(2, 'big') + b'\x00' * 10))
        for o in ('IF', 'LOOP', 'TRY_EXCEPT', 'IF_ELSE'):
            out.append((o, op('TRUE') + op(o) + ln.to_bytes(2, 'big') + b'\x01\x01'))
        out.append(('DEF', op('DEF') + b'\x00' + ln.to_bytes(2, 'big') + b'\x01'))
    return out


def family_d(ctx, case):
    name, script = case
    from mc import stepspace
    limits = (1024, 1024, 128)
    ctx.state((script, 'huge'))
    monitor.install()
    bound = 4 * (limits[0] * limits[1] + len(script)) + (1 << 20)
    tracemalloc.start()
    try:
        mon, exc, stack, cache = monitor.run_monitored(script, limits, cache=CACHE0, contracts=stepspace.CONTRACTS)
        cur, peak = tracemalloc.get_traced_memory()
    finally:
        tracemalloc.stop()
    ctx.ran()
    ctx.trans(mon.instr)
    ctx.outcome(name + ':' + ('ok' if exc is None else type(exc).__name__))
    for inv, detail in mon.problems:
        ctx.violation({'family': 'D huge operands', 'op': name, 'invariant': inv}, f'script {script.hex()}: {detail}')
    if peak > bound:
        ctx.violation({'family': 'D huge operands', 'op': name, 'invariant': 'allocation unrelated to the limits'},
                      f'script {script.hex()}: tracemalloc peak {peak} > bound {bound}')
    for n in env.Rand.log:
        if n > limits[1]:
            ctx.violation({'family': 'D huge operands', 'op': 'OP_RANDOM', 'invariant': 'allocation request larger than max_item_size'},
                          f'script {script.hex()}: token_bytes({n}) requested before any limit check')
    env.Rand.log.clear()
    if isinstance(exc, (RecursionError, MemoryError, SystemError, env.HugeAllocation, monitor.Horizon)):
        if not (isinstance(exc, env.HugeAllocation)):
            ctx.violation({'family': 'D huge operands', 'op': name, 'invariant': 'interpreter-level failure',
                           'exc': type(exc).__name__}, f'script {script.hex()}: {exc!r}')


# deep nesting x recursion, on the bare (unwrapped) VM in a fresh process ------------------------------
E_DRIVER = r'''
import sys, json
sys.setrecursionlimit(1000)
sys.path.insert(0, %r)
from mc import env
F = env.functions
SEE = env.errors.ScriptExecutionError
out = []
for name, hexs in json.loads(sys.stdin.read()):
    s = bytes.fromhex(hexs)
    try:
        F.run_script(s)
        r = 'ok'
    except SEE:
        r = 'ScriptExecutionError'
    except BaseException as e:
        r = type(e).__name__
    try:
        a = F.run_auth_scripts([s])
    except BaseException as e:
        a = 'raised ' + type(e).__name__
    out.append([name, r, a])
print(json.dumps(out))
'''


def nest(kind, depth, inner):
    b = inner
    for _ in range(depth):
        if kind == 'IF':
            b = op('TRUE') + op('IF') + blk(b)
        elif kind == 'IF_ELSE':
            b = op('FALSE') + op('IF_ELSE') + blk(b'') + blk(b)
        elif kind == 'TRY':
            b = op('TRY_EXCEPT') + blk(b) + blk(b'')
        elif kind == 'LOOP':
            b = op('TRUE') + op('LOOP') + blk(op('POP0') + b + op('FALSE')) + op('POP0')
        if len(b) > 60000:
            break
    return b


def family_e_cases(tier):
    out = []
    for kind in ('IF', 'IF_ELSE', 'TRY', 'LOOP'):
        for depth in (1, 8, 64, 250):
            rec_call = op('DEF') + b'\x00' + blk(nest(kind, depth, op('CALL') + b'\x00')) + op('CALL') + b'\x00'
            out.append(('%s x%d around recursive CALL' % (kind, depth), rec_call))
            body = nest(kind, depth, op('DUP') + op('EVAL'))
            if len(body) <= 1024:
                out.append(('%s x%d around self-EVAL' % (kind, depth), P(body) + op('DUP') + op('EVAL')))
            out.append(('%s x%d plain' % (kind, depth), nest(kind, depth, op('TRUE'))))
    return out


def family_e(ctx, cases):
    here = os.path.dirname(os.path.dirname(os.path.abspath(__file__)))
    p = subprocess.run([sys.executable, '-B', '-c', E_DRIVER % here], input=json.dumps([[n, s.hex()] for n, s in cases]),
                       capture_output=True, text=True, timeout=900, env={**os.environ, 'PYTHONHASHSEED': '0'})
    if p.returncode != 0:
        ctx.violation({'family': 'E deep nesting', 'invariant': 'interpreter-level failure', 'exc': 'process died'},
                      f'driver exit {p.returncode}: {p.stderr[-500:]}')
        return
    res = json.loads(p.stdout.strip().splitlines()[-1])
    for name, r, a in res:
        ctx.ran(2)
        ctx.state(('E', name))
        ctx.outcome('E:' + r)
        kind = name.split(' ')[0]
        if r not in ('ok', 'ScriptExecutionError'):
            ctx.violation({'family': 'E deep nesting', 'invariant': 'interpreter-level failure', 'exc': r,
                           'shape': 'conditional/loop nesting around unbounded CALL/EVAL recursion' if 'plain' not in name
                           else 'plain nesting of ' + kind},
                          f'{name}: run_script ended with {r}')
        if a is not False and a is not True:
            ctx.violation({'family': 'E deep nesting', 'invariant': 'run_auth_scripts raised'}, f'{name}: {a}')
    ctx.evaluations += len(res) - 1


def blocks(tier, seed):
    q = tier == 'quick'
    maxlen, full_upto = (3, 2) if q else (4, 3)
    pairs = list(itertools.product(NAMES, repeat=2)) + [(n,) for n in NAMES]
    bl = [
        Block('A_hungry_programs_x_limits', lambda s, n: family_a_cases(maxlen, s, n, full_upto), family_a,
              'all sequences of <= %d statements over %d resource-hungry statements x %d limit triples (length %d: %d triples)' % (full_upto, len(NAMES), len(SMALL_LIMITS), maxlen, len(FEW_LIMITS)),
              nshards=128),
        Block('A2_recursion_through_constructs', recursion_cases(), family_rec,
              'unbounded CALL / self-EVAL recursion routed through every construct kind and pair of kinds x call-stack limits 1,2,3,4,16', nshards=64),
        Block('A3_loops_at_call_depth', loop_depth_cases(), family_loop_depth,
              'a never-ending loop under every chain (<= 3) of CALL/EVAL/IF/TRY/EXCEPT levels x call-stack limits 1,2,3,5,16', nshards=64),
        Block('A4_later_scripts', loop_depth_cases() + recursion_cases(), family_later,
              'never-ending loops / unbounded recursion as the 2nd and 3rd script of run_auth_scripts x call-stack limits 1,2,3,5,16 '
              'x two item-limit pairs', nshards=64),
        Block('A5_deprecated_entry_point', list(NAMES), family_deprecated,
              'every hungry statement (+ a stack filler) x 7 limit triples with max_items != max_item_size, positional and keyword limits, '
              'run_auth_script vs run_auth_scripts', nshards=32),
        Block('F_length_pairs', [(nm, la, lb, lim) for nm in ('AND', 'OR', 'XOR', 'CONCAT', 'CONCAT_STR', 'EQUAL', 'LESS', 'ADD_INTS')
                                 for la, lb in ((1, 2), (2, 1), (0, 3), (3, 0), (1, 64), (64, 1), (8, 8)) for lim in ((1024, 1024, 128), (4, 64, 4), (4, 8, 4))
                                 if nm != 'ADD_INTS' or True], family_bitwise,
              'two-operand instructions x operand length pairs (shorter / longer / empty on either side) x 3 limit triples', nshards=64, backstop=15),
        Block('B_truncations', pairs, family_b, 'every byte-prefix of every <=2 statement program', nshards=64),
        Block('B2_malformed_control', lambda s, n: spaces.malformed(2, 'full', s, n), family_b2,
              'every byte-prefix and single-byte perturbation of every full-grammar program with <= 2 nodes (taken and not-taken bodies)',
              nshards=64),
        Block('D_huge_operands', huge_cases(), family_d, 'count/size/index operands from stack or tape x huge values, tracemalloc peak', nshards=32),
        Block('E_deep_nesting_recursion', [family_e_cases(tier)], family_e, 'nesting depth {1,8,64,250} x recursion on the bare VM (fresh process)', nshards=1, backstop=1800),
    ]
    return bl


def meta(tier, seed):
    q = tier == 'quick'
    return dict(
        rule='complete statement sequences x limit triples run on the real VM under mc.monitor; invariants at every deque mutation, '
             'tape read, dispatched instruction; outcome judged against ref.refvm limit categories',
        states_meaning='distinct (script, limits) inputs plus distinct observed high-water tuples (items, item size, call depth, loop '
                       'iterations); transitions = dispatched instructions',
        bounds={'statements': len(NAMES), 'max_statements': 3 if q else 4, 'all_limit_triples_upto_statements': 2 if q else 3, 'limit_triples': len(SMALL_LIMITS), 'horizon': 200000},
        assumptions=['callstack_limit above the default 128 is out of scope (host recursion limit becomes the binding constraint)',
                     'allocation is judged by tracemalloc (Python-level allocations) and by the size requested from the random source; '
                     'threshold 4*(max_items*max_item_size+len(script))+1MiB is an engineering bound'],
    )
