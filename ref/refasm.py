"""Reference assembler / disassembler / source renderer for tapescript, written from
language_spec.md ("Syntax") and the operand layouts in docs.md.  Independent of parsing.py.

Abstract statements
  ('I', NAME, [operand, ...])         plain instruction (NAME without OP_), operands are abstract values
  ('PUSH', value)                     PUSH sugar: smallest push that fits
  ('IF', body) ('IFELSE', b1, b2) ('TRY', b1, b2) ('LOOP', body) ('DEF', handle, body)
  ('HOIST_IF', cond, body) ('HOIST_IFELSE', cond, b1, b2)     IF ( cond ) { .. }  ==  cond IF { .. }
Abstract values:  ('d', int) ('x', bytes) ('s', str) ('f', float-bits)
"""
import math
import re

from ref.optable import OP, NAME, FIRST_NOP
from ref import refvm


class AsmError(Exception):
    pass


class DisError(Exception):
    pass


class Ambiguous(Exception):
    """the rendering would be a dangling-ELSE / dangling-EXCEPT source (clause binds to the inner block)"""


# ---------------------------------------------------------------- operand layout per instruction (docs.md)
NOARG = set("""FALSE TRUE POP0 SIZE READ_CACHE_STACK READ_CACHE_STACK_SIZE DIV_INTS MOD_INTS DIV_FLOATS MOD_FLOATS DUP SHA256 VERIFY EQUAL
EQUAL_VERIFY CHECK_TIMESTAMP CHECK_TIMESTAMP_VERIFY CHECK_EPOCH CHECK_EPOCH_VERIFY EVAL RANDOM NOT RETURN DEPTH SWAP2 CONCAT CONCAT_STR
CHECK_TRANSFER LESS LESS_OR_EQUAL FLOAT_LESS FLOAT_LESS_OR_EQUAL INT_TO_FLOAT FLOAT_TO_INT SIGN_STACK CHECK_SIG_STACK DERIVE_SCALAR
DERIVE_POINT MAKE_ADAPTER_SIG_PUBLIC MAKE_ADAPTER_SIG_PRIVATE CHECK_ADAPTER_SIG DECRYPT_ADAPTER_SIG INVOKE SPLIT SPLIT_STR XOR OR AND""".split())
BYTE1 = set("""PUSH0 POP1 ADD_INTS SUBTRACT_INTS MULT_INTS ADD_FLOATS SUBTRACT_FLOATS ADD_POINTS CALL COPY SHAKE256 REVERSE CHECK_SIG SIGN
TAPROOT CHECK_SIG_VERIFY CLAMP_SCALAR ADD_SCALARS SUBTRACT_SCALARS SUBTRACT_POINTS GET_MESSAGE CHECK_TEMPLATE CHECK_TEMPLATE_VERIFY""".split())
LV1 = set("PUSH1 READ_CACHE READ_CACHE_SIZE DIV_INT MOD_INT SET_FLAG UNSET_FLAG GET_VALUE".split())
F32 = {'DIV_FLOAT', 'MOD_FLOAT'}
BLOCKS = {'IF', 'IF_ELSE', 'TRY_EXCEPT', 'LOOP', 'DEF'}


def kind(name):
    if name in NOARG:
        return 'none'
    if name in BYTE1 or name.startswith('NOP'):
        return 'byte1'
    if name in LV1:
        return 'lv1'
    if name == 'PUSH2':
        return 'lv2'
    if name == 'WRITE_CACHE':
        return 'wc'
    if name in F32:
        return 'f32'
    if name == 'SWAP':
        return 'u8u8'
    if name in ('CHECK_MULTISIG', 'CHECK_MULTISIG_VERIFY'):
        return 'ms'
    if name == 'MERKLEVAL':
        return 'h32'
    if name in BLOCKS:
        return 'block'
    raise KeyError(name)


def opcode(name):
    if name.startswith('NOP'):
        return int(name[3:])
    return OP[name]


# ---------------------------------------------------------------- values
def enc_int(n):
    ln = (n.bit_length() + 8) // 8 if n >= 0 else ((-n - 1).bit_length() + 8) // 8
    return n.to_bytes(max(ln, 1), 'big', signed=True)


def value_bytes(v):
    t, x = v
    if t == 'd':
        return enc_int(x)
    if t == 'x':
        return bytes(x)
    if t == 's':
        return x.encode('utf-8')
    if t == 'f':
        return refvm.f32_encode(x)
    if t == 'fi':          # float literal written without a fractional part (f-3)
        return refvm.f32_encode(float(x))
    raise AsmError(t)


def byte1(v):
    """one-byte operand: d in -128..127 (signed) or x one byte"""
    t, x = v
    if t == 'd':
        if not -128 <= x <= 127:
            raise AsmError('signed byte out of range')
        return bytes([x & 0xff])
    if t == 'x':
        if len(x) != 1:
            raise AsmError('one byte expected')
        return bytes(x)
    raise AsmError('byte operand must be d or x')


def u8(v):
    t, x = v
    if t == 'd':
        if not 0 <= x <= 255:
            raise AsmError('index out of range')
        return bytes([x])
    if t == 'x':
        if len(x) != 1:
            raise AsmError('one byte expected')
        return bytes(x)
    raise AsmError('index operand must be d or x')


def blk(b):
    if len(b) > 65535:
        raise AsmError('block too long')
    return len(b).to_bytes(2, 'big') + b


# ---------------------------------------------------------------- assembler
def encode_prog(prog):
    return b''.join(encode(s) for s in prog)


def encode(s):
    k = s[0]
    if k == 'PUSH':
        b = value_bytes(s[1])
        if len(b) == 1:
            return b'\x02' + b
        if 1 < len(b) < 256:
            return b'\x03' + bytes([len(b)]) + b
        if 255 < len(b) < 65536:
            return b'\x04' + len(b).to_bytes(2, 'big') + b
        raise AsmError('value size invalid for PUSH')
    if k == 'IF':
        return bytes([OP['IF']]) + blk(encode_prog(s[1]))
    if k == 'IFELSE':
        return bytes([OP['IF_ELSE']]) + blk(encode_prog(s[1])) + blk(encode_prog(s[2]))
    if k == 'HOIST_IF':
        return encode_prog(s[1]) + bytes([OP['IF']]) + blk(encode_prog(s[2]))
    if k == 'HOIST_IFELSE':
        return encode_prog(s[1]) + bytes([OP['IF_ELSE']]) + blk(encode_prog(s[2])) + blk(encode_prog(s[3]))
    if k == 'TRY':
        return bytes([OP['TRY_EXCEPT']]) + blk(encode_prog(s[1])) + blk(encode_prog(s[2]))
    if k == 'LOOP':
        return bytes([OP['LOOP']]) + blk(encode_prog(s[1]))
    if k == 'DEF':
        return bytes([OP['DEF']]) + u8(s[1]) + blk(encode_prog(s[2]))
    if k == 'RAWSRC':      # source-only statement (comment etc.) with given expected bytes
        return s[2]
    assert k == 'I', k
    name, ops = s[1], s[2]
    kd = kind(name)
    c = bytes([opcode(name)])
    if kd == 'none':
        return c
    if kd == 'byte1':
        return c + byte1(ops[0])
    if kd == 'lv1':
        b = value_bytes(ops[0])
        if len(b) > 255:
            raise AsmError('value longer than 255')
        return c + bytes([len(b)]) + b
    if kd == 'lv2':
        b = value_bytes(ops[0])
        if len(b) > 65535:
            raise AsmError('value longer than 65535')
        return c + len(b).to_bytes(2, 'big') + b
    if kd == 'wc':
        if ops[0][0] == 'd':
            # a decimal cache key is not described by the documents; the pinned compiler writes it as the minimal UNSIGNED
            # big-endian number (d128 -> 80), unlike decimal push values - recorded here because the bytes of an accepted
            # source are what script hashes commit to (standing decision, DESIGN 2.4)
            n_ = ops[0][1]
            if n_ < 0:
                raise AsmError('negative decimal cache key')
            key = n_.to_bytes(max(1, (n_.bit_length() + 7) // 8), 'big')
        else:
            key = value_bytes(ops[0])
        if len(key) > 255:
            raise AsmError('key longer than 255')
        return c + bytes([len(key)]) + key + u8(ops[1])
    if kd == 'f32':
        t, x = ops[0]
        if t == 'f':
            return c + refvm.f32_encode(x)
        if t == 'fi':
            return c + refvm.f32_encode(float(x))
        if t == 'x' and len(x) == 4:
            return c + bytes(x)
        raise AsmError('float operand')
    if kd == 'u8u8':
        return c + u8(ops[0]) + u8(ops[1])
    if kd == 'ms':
        return c + u8(ops[0]) + u8(ops[1]) + u8(ops[2])
    if kd == 'h32':
        t, x = ops[0]
        if t != 'x' or len(x) != 32:
            raise AsmError('digest must be 32 bytes of hex')
        return c + bytes(x)
    raise AsmError(kd)


# ---------------------------------------------------------------- source renderer
class Style:
    """spelling choices; every field has a default"""

    def __init__(self, prefix='OP_', case='upper', braces=True, else_brace=True, hexcase='lower', quote='"', ws=' ',
                 alias=None, block_styles=None, valprefix='lower', push_size=False, def_plain=False):
        self.prefix, self.case, self.braces, self.else_brace = prefix, case, braces, else_brace
        self.hexcase, self.quote, self.ws, self.alias = hexcase, quote, ws, alias or {}
        self.block_styles = block_styles      # optional iterator of per-block booleans (True = braces)
        self.valprefix = valprefix
        self.push_size = push_size            # OP_PUSH1 / OP_PUSH2 written with the documented explicit size argument
        self.def_plain = def_plain            # OP_DEF handle written as a plain int

    def name(self, n):
        s = self.alias.get(n) or (self.prefix + n if not n.startswith('NOP') else n)
        return self.cased(s)

    def cased(self, s):
        if self.case == 'lower':
            return s.lower()
        if self.case == 'mixed':
            return ''.join(ch.lower() if i % 2 else ch.upper() for i, ch in enumerate(s))
        return s.upper()

    def next_braces(self):
        if self.block_styles is not None:
            try:
                return next(self.block_styles)
            except StopIteration:
                pass
        return self.braces

    def value(self, v):
        t, x = v
        p = t[0] if self.valprefix == 'lower' else t[0].upper()
        if t == 'd':
            return '%s%d' % (p, x)
        if t == 'x':
            h = bytes(x).hex()
            return p + (h.upper() if self.hexcase == 'upper' else h)
        if t == 's':
            return 's%s%s%s' % (self.quote, x, self.quote)
        if t == 'f':
            return p + repr(float(x))
        if t == 'fi':
            return ('f' if self.valprefix == 'lower' else 'F') + '%d' % x
        raise AsmError(t)


def tokens(prog, st):
    out = []
    for s in prog:
        out.extend(stmt_tokens(s, st))
    return out


def stmt_tokens(s, st):
    k = s[0]
    if k == 'PUSH':
        return [st.name('PUSH'), st.value(s[1])]
    if k == 'RAWSRC':
        return list(s[1])
    if k in ('IF', 'HOIST_IF', 'IFELSE', 'HOIST_IFELSE'):
        out = [st.name('IF')]
        i = 1
        if k.startswith('HOIST'):
            out += ['('] + tokens(s[1], st) + [')']
            i = 2
        br = st.next_braces()
        if k in ('IF', 'HOIST_IF'):
            if br:
                return out + ['{'] + tokens(s[i], st) + ['}']
            return out + tokens(s[i], st) + [st.cased('END_IF')]
        if br:
            return out + ['{'] + tokens(s[i], st) + ['}', st.cased('ELSE'), '{'] + tokens(s[i + 1], st) + ['}']
        t1 = tokens(s[i], st)
        if t1 and t1[-1] in ('}',) or (t1 and t1[-1].upper() == 'END_IF'):
            raise Ambiguous('ELSE after an inner block')
        return out + t1 + [st.cased('ELSE')] + tokens(s[i + 1], st) + [st.cased('END_IF')]
    if k == 'TRY':
        br = st.next_braces()
        if br:
            out = [st.name('TRY'), '{'] + tokens(s[1], st) + ['}']
            if s[2]:
                out += [st.cased('EXCEPT'), '{'] + tokens(s[2], st) + ['}']
            return out
        t1 = tokens(s[1], st)
        if t1 and t1[-1] == '}':
            raise Ambiguous('EXCEPT after an inner block')
        out = [st.name('TRY')] + t1 + [st.cased('EXCEPT')] + tokens(s[2], st) + [st.cased('END_EXCEPT')]
        return out
    if k == 'LOOP':
        if st.next_braces():
            return [st.name('LOOP'), '{'] + tokens(s[1], st) + ['}']
        return [st.name('LOOP')] + tokens(s[1], st) + [st.cased('END_LOOP')]
    if k == 'DEF':
        h = st.value(s[1]) if not st.def_plain else str(s[1][1])
        if st.next_braces():
            return [st.name('DEF'), h, '{'] + tokens(s[2], st) + ['}']
        return [st.name('DEF'), h] + tokens(s[2], st) + [st.cased('END_DEF')]
    name, ops = s[1], s[2]
    out = [st.name(name)]
    if st.push_size and name in ('PUSH1', 'PUSH2'):
        out.append(st.value(('d', len(value_bytes(ops[0])))))
    return out + [st.value(v) for v in ops]


def source(prog, st=None):
    st = st or Style()
    return st.ws.join(tokens(prog, st))


# ---------------------------------------------------------------- disassembler (total, bounds checked, never moves backwards)
def disassemble(code, depth=0):
    """-> list of (name, operand-bytes, [sub-listings])"""
    out = []
    pc, n = 0, len(code)

    def rd(k):
        nonlocal pc
        if pc + k > n:
            raise DisError('truncated operand')
        b = code[pc:pc + k]
        pc += k
        return b
    while pc < n:
        c = code[pc]
        pc += 1
        if c >= FIRST_NOP:
            out.append(('NOP%d' % c, rd(1), []))
            continue
        name = NAME[c]
        kd = kind(name)
        if kd == 'none':
            out.append((name, b'', []))
        elif kd == 'byte1':
            out.append((name, rd(1), []))
        elif kd == 'lv1':
            ln = rd(1)[0]
            out.append((name, rd(ln), []))
        elif kd == 'lv2':
            ln = int.from_bytes(rd(2), 'big')
            out.append((name, rd(ln), []))
        elif kd == 'wc':
            ln = rd(1)[0]
            key = rd(ln)
            out.append((name, key + rd(1), []))
        elif kd == 'f32':
            out.append((name, rd(4), []))
        elif kd == 'u8u8':
            out.append((name, rd(2), []))
        elif kd == 'ms':
            out.append((name, rd(3), []))
        elif kd == 'h32':
            out.append((name, rd(32), []))
        elif name == 'DEF':
            h = rd(1)
            body = rd(int.from_bytes(rd(2), 'big'))
            out.append((name, h, [disassemble(body, depth + 1)]))
        elif name in ('IF', 'LOOP'):
            body = rd(int.from_bytes(rd(2), 'big'))
            out.append((name, b'', [disassemble(body, depth + 1)]))
        else:  # IF_ELSE, TRY_EXCEPT
            b1 = rd(int.from_bytes(rd(2), 'big'))
            b2 = rd(int.from_bytes(rd(2), 'big'))
            out.append((name, b'', [disassemble(b1, depth + 1), disassemble(b2, depth + 1)]))
    return out


def flat_names(listing):
    out = []
    for name, _, subs in listing:
        out.append(name)
        for s in subs:
            out.extend(flat_names(s))
    return out


def listing_names(lines):
    """instruction names, in order, from a decompiled source listing (list of lines)"""
    out = []
    for ln in lines:
        for tok in ln.split():
            t = tok.upper()
            if t.startswith('OP_'):
                out.append(t[3:])
            elif re.fullmatch(r'NOP\d+', t):
                out.append(t)
    return out


# ---------------------------------------------------------------- documented aliases (docs.md "Aliases:" lists)
def documented_aliases(path='/repo/docs.md'):
    al = {}
    name, active = None, False
    for line in open(path):
        m = re.match(r'^## OP_(\w+) - \d+', line)
        if m:
            name, active = m.group(1), False
            continue
        if line.startswith('## '):
            name = None
        if name and line.startswith('Aliases:'):
            active = True
            continue
        if active and line.startswith('- '):
            al.setdefault(name, []).append(line[2:].strip())
        elif active and line.strip():
            active = False
    return al
