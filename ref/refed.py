"""Reference Ed25519 over Python ints, written from RFC 8032 (section 5.1 and the
sample code in section 6).  Independent of libsodium / PyNaCl.

verify_strict implements the acceptance rule libsodium documents for
crypto_sign_verify_detached: canonical S (< L), canonical and non-small-order
public key, non-small-order R, and the cofactorless equation with the
recomputed R compared byte-for-byte.
"""
import hashlib
from functools import lru_cache

p = 2 ** 255 - 19
L = 2 ** 252 + 27742317777372353535851937790883648493
d = (-121665 * pow(121666, p - 2, p)) % p
SQRT_M1 = pow(2, (p - 1) // 4, p)


def sha512(b):
    return hashlib.sha512(b).digest()


def _inv(x):
    return pow(x, p - 2, p)


def point_add(P, Q):
    A = (P[1] - P[0]) * (Q[1] - Q[0]) % p
    B = (P[1] + P[0]) * (Q[1] + Q[0]) % p
    C = 2 * P[3] * Q[3] * d % p
    D = 2 * P[2] * Q[2] % p
    E, F, G, H = B - A, D - C, D + C, B + A
    return (E * F % p, G * H % p, F * G % p, E * H % p)


def point_neg(P):
    return ((-P[0]) % p, P[1], P[2], (-P[3]) % p)


def point_mul(s, P):
    Q = (0, 1, 1, 0)
    while s > 0:
        if s & 1:
            Q = point_add(Q, P)
        P = point_add(P, P)
        s >>= 1
    return Q


def point_equal(P, Q):
    if (P[0] * Q[2] - Q[0] * P[2]) % p != 0:
        return False
    if (P[1] * Q[2] - Q[1] * P[2]) % p != 0:
        return False
    return True


def recover_x(y, sign):
    if y >= p:
        return None
    x2 = (y * y - 1) * _inv(d * y * y + 1) % p
    if x2 == 0:
        if sign:
            return None
        return 0
    x = pow(x2, (p + 3) // 8, p)
    if (x * x - x2) % p != 0:
        x = x * SQRT_M1 % p
    if (x * x - x2) % p != 0:
        return None
    if (x & 1) != sign:
        x = p - x
    return x


g_y = 4 * _inv(5) % p
g_x = recover_x(g_y, 0)
G = (g_x, g_y, 1, g_x * g_y % p)
IDENT = (0, 1, 1, 0)


def point_compress(P):
    zinv = _inv(P[2])
    x = P[0] * zinv % p
    y = P[1] * zinv % p
    return int.to_bytes(y | ((x & 1) << 255), 32, 'little')


def point_decompress(s, strict=True):
    """RFC 8032 decoding (rejects y >= p and x = 0 with sign bit). None if invalid."""
    if len(s) != 32:
        return None
    y = int.from_bytes(s, 'little')
    sign = y >> 255
    y &= (1 << 255) - 1
    x = recover_x(y, sign)
    if x is None:
        return None
    return (x, y, 1, x * y % p)


_GPOW = None


def base_mul(s):
    """[s]B with a table of [2^i]B"""
    global _GPOW
    if _GPOW is None:
        t, P = [], G
        for _ in range(256):
            t.append(P)
            P = point_add(P, P)
        _GPOW = t
    Q = IDENT
    i = 0
    while s > 0:
        if s & 1:
            Q = point_add(Q, _GPOW[i])
        s >>= 1
        i += 1
    return Q


@lru_cache(maxsize=200000)
def base_mul_enc(s):
    return point_compress(base_mul(s))


def clamp_key(h32):
    a = int.from_bytes(h32, 'little')
    a &= (1 << 254) - 8
    a |= (1 << 254)
    return a


@lru_cache(maxsize=100000)
def secret_expand(seed):
    h = sha512(seed)
    return clamp_key(h[:32]), h[32:]


@lru_cache(maxsize=100000)
def public_key(seed):
    a, _ = secret_expand(seed)
    return base_mul_enc(a)


def sha512_modq(b):
    return int.from_bytes(sha512(b), 'little') % L


@lru_cache(maxsize=400000)
def sign(seed, msg):
    a, prefix = secret_expand(seed)
    A = base_mul_enc(a)
    r = sha512_modq(prefix + msg)
    Rs = base_mul_enc(r)
    h = sha512_modq(Rs + A + msg)
    s = (r + h * a) % L
    return Rs + int.to_bytes(s, 32, 'little')


def has_small_order(P):
    Q = P
    for _ in range(3):
        Q = point_add(Q, Q)
    return point_equal(Q, IDENT)


@lru_cache(maxsize=400000)
def verify_strict(public, msg, signature):
    if len(public) != 32 or len(signature) != 64:
        return False
    Rs = signature[:32]
    s = int.from_bytes(signature[32:], 'little')
    if s >= L:
        return False
    # R must not be of small order (libsodium blacklist); a non-decodable R can never
    # equal the recomputed canonical encoding, so it is rejected below anyway
    R = point_decompress(Rs)
    if R is not None and has_small_order(R):
        return False
    # the blacklist also covers non-canonical encodings of small-order points
    yR = int.from_bytes(Rs, 'little') & ((1 << 255) - 1)
    if yR >= p:
        return False
    yA = int.from_bytes(public, 'little') & ((1 << 255) - 1)
    if yA >= p:
        return False
    A = point_decompress(public)
    if A is None:
        return False
    if has_small_order(A):
        return False
    h = sha512_modq(Rs + public + msg)
    # R' = [s]B - [h]A
    Rp = point_add(base_mul(s), point_neg(point_mul(h, A)))
    return point_compress(Rp) == Rs


# ---------------------------------------------------------------- scalar / point helpers
def sc(b):
    """little-endian scalar bytes -> int (no reduction)"""
    return int.from_bytes(b, 'little')


def sc_enc(n):
    return int.to_bytes(n % L, 32, 'little')


def clamp_scalar(b, from_private_key=False):
    """tapescript's documented clamp: clear bit 255; for keys also clear bits 0-2, set bit 254"""
    a = int.from_bytes(b[:32], 'little')
    if from_private_key:
        a &= ~7
        a |= 1 << 254
    a &= (1 << 255) - 1
    return int.to_bytes(a, 32, 'little')


def scalarmult_base_noclamp(sbytes):
    """[s]B for s = the 255 low bits of the little endian scalar (libsodium noclamp masks bit 255)"""
    s = int.from_bytes(sbytes, 'little') & ((1 << 255) - 1)
    return base_mul_enc(s)


def add_enc(Ps, Qs):
    P, Q = point_decompress(Ps), point_decompress(Qs)
    if P is None or Q is None:
        return None
    return point_compress(point_add(P, Q))


def sub_enc(Ps, Qs):
    P, Q = point_decompress(Ps), point_decompress(Qs)
    if P is None or Q is None:
        return None
    return point_compress(point_add(P, point_neg(Q)))


def mul_enc(s, Ps):
    P = point_decompress(Ps)
    if P is None:
        return None
    return point_compress(point_mul(s, P))


def is_on_main_subgroup(Ps):
    P = point_decompress(Ps)
    return P is not None and point_equal(point_mul(L, P), IDENT)


def sign_with_scalar_verifies(pub, msg, sig):
    return verify_strict(pub, msg, sig)


def selftest():
    # RFC 8032 section 7.1 test vectors 1-3 and the 1023-byte one is omitted (SHA(abc) used instead)
    vecs = [
        ('9d61b19deffd5a60ba844af492ec2cc44449c5697b326919703bac031cae7f60',
         'd75a980182b10ab7d54bfed3c964073a0ee172f3daa62325af021a68f707511a', '',
         'e5564300c360ac729086e2cc806e828a84877f1eb8e5d974d873e06522490155'
         '5fb8821590a33bacc61e39701cf9b46bd25bf5f0595bbe24655141438e7a100b'),
        ('4ccd089b28ff96da9db6c346ec114e0f5b8a319f35aba624da8cf6ed4fb8a6fb',
         '3d4017c3e843895a92b70aa74d1b7ebc9c982ccf2ec4968cc0cd55f12af4660c', '72',
         '92a009a9f0d4cab8720e820b5f642540a2b27b5416503f8fb3762223ebdb69da'
         '085ac1e43e15996e458f3613d0f11d8c387b2eaeb4302aeeb00d291612bb0c00'),
        ('c5aa8df43f9f837bedb7442f31dcb7b166d38535076f094b85ce3a2e0b4458f7',
         'fc51cd8e6218a1a38da47ed00230f0580816ed13ba3303ac5deb911548908025', 'af82',
         '6291d657deec24024827e69c3abe01a30ce548a284743a445e3680d7db5ac3ac'
         '18ff9b538d16f290ae67f760984dc6594a7c15e9716ed28dc027beceea1ec40a'),
        ('833fe62409237b9d62ec77587520911e9a759cec1d19755b7da901b96dca3d42',
         'ec172b93ad5e563bf4932c70e1245034c35467ef2efd4d64ebf819683467e2bf',
         'ddaf35a193617abacc417349ae20413112e6fa4e89a97ea20a9eeee64b55d39a'
         '2192992a274fc1a836ba3c23a3feebbd454d4423643ce80e2a9ac94fa54ca49f',
         'dc2a4459e7369633a52b1bf277839a00201009a3efbf3ecb69bea2186c26b589'
         '09351fc9ac90b3ecfdfbc7c66431e0303dca179c138ac17ad9bef1177331a704'),
    ]
    for sk, pk, m, sg in vecs:
        sk, pk, m, sg = map(bytes.fromhex, (sk, pk, m, sg))
        assert public_key(sk) == pk, 'refed public key'
        assert sign(sk, m) == sg, 'refed sign'
        assert verify_strict(pk, m, sg), 'refed verify'
        bad = bytearray(sg)
        bad[0] ^= 1
        assert not verify_strict(pk, m, bytes(bad))
        assert not verify_strict(pk, m + b'x', sg)
    assert point_equal(point_mul(L, G), IDENT)
    return True
