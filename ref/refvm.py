"""Reference interpreter for tapescript bytecode, written from docs.md (op
reference), language_spec.md and the operand orders pinned by the unit tests.
NOT derived from functions.py.  It is a boring big-step interpreter over
immutable byte strings; RETURN is a control signal (never a cache entry).

Three-valued: a run ends in ('ok', stack, cache), ('error', category) or raises
Unspec(reason) when the documents do not determine the behaviour.
"""
import hashlib
import math

from ref import refed
from ref.optable import NAME, FIRST_NOP


class RErr(Exception):
    def __init__(self, cat, msg=''):
        super().__init__(cat + (': ' + msg if msg else ''))
        self.cat = cat


class Unspec(Exception):
    pass


class Wild(bytes):
    """a stack/cache item whose content the documents do not determine"""
    def __repr__(self):
        return 'Wild'


class IntB(bytes):
    """integer result; the documents fix the value, not the (minimal) length above 2^53"""
    pass


WILD = Wild(b'?')
RET, END = 'return', 'end'
DEFAULT_FLAGS = {'ts_threshold': 60, 'epoch_threshold': 60, **{i: True for i in range(11)}}


# ---------------------------------------------------------------- codecs (independent)
def enc_int(n):
    ln = (n.bit_length() + 8) // 8 if n >= 0 else ((-n - 1).bit_length() + 8) // 8
    b = n.to_bytes(max(ln, 1), 'big', signed=True)
    return IntB(b) if abs(n) >= (1 << 53) else b


def dec_int(b):
    if type(b) is Wild:
        raise Unspec('integer read of undetermined item')
    if len(b) == 0:
        raise RErr('type', 'empty int')
    return int.from_bytes(b, 'big', signed=True)


def f32_decode(b):
    p = int.from_bytes(b, 'big')
    s = -1.0 if p >> 31 else 1.0
    e = (p >> 23) & 0xff
    m = p & 0x7fffff
    if e == 0xff:
        return math.nan if m else s * math.inf
    if e == 0:
        return s * math.ldexp(m, -149)
    return s * math.ldexp(m | 0x800000, e - 150)


def f32_encode(x):
    """double -> float32 bits (round to nearest even); None if a finite value overflows"""
    if x != x:
        return b'\x7f\xc0\x00\x00'
    sign = 0x80000000 if math.copysign(1.0, x) < 0 else 0
    x = abs(x)
    if x == math.inf:
        return (sign | 0x7f800000).to_bytes(4, 'big')
    if x == 0.0:
        return sign.to_bytes(4, 'big')
    m, e = math.frexp(x)           # x = m * 2^e, 0.5 <= m < 1
    # as integer significand with 24 bits: x = M * 2^(e-24)
    exp = e - 1                    # unbiased exponent of leading bit
    if exp < -126:
        # subnormal: units of 2^-149
        q = x / math.ldexp(1.0, -149)
        M = _round_half_even(q)
        if M >= 0x800000:          # rounds up into the normal range
            return (sign | 0x00800000).to_bytes(4, 'big')
        return (sign | M).to_bytes(4, 'big')
    q = math.ldexp(m, 24)          # in [2^23, 2^24)
    M = _round_half_even(q)
    if M == 1 << 24:
        M >>= 1
        exp += 1
    if exp > 127:
        return None
    return (sign | ((exp + 127) << 23) | (M & 0x7fffff)).to_bytes(4, 'big')


def _round_half_even(q):
    f = math.floor(q)
    d = q - f
    if d > 0.5 or (d == 0.5 and f % 2 == 1):
        f += 1
    return int(f)


def to_bool(b):
    if type(b) is Wild:
        raise Unspec('bool of undetermined item')
    return any(b)


def valid_point(b):
    if type(b) is Wild:
        raise Unspec('point check of undetermined item')
    return _valid_point(bytes(b))


@__import__('functools').lru_cache(maxsize=100000)
def _valid_point(b):
    """libsodium crypto_core_ed25519_is_valid_point: canonical, on curve, main subgroup, not small order"""
    if type(b) is Wild:
        raise Unspec('point check of undetermined item')
    if len(b) != 32:
        return False
    P = refed.point_decompress(b)
    if P is None:
        return False
    if refed.has_small_order(P):
        return False
    return refed.point_equal(refed.point_mul(refed.L, P), refed.IDENT)


class Env:
    def __init__(self, now=1_700_000_000, max_items=1024, max_item_size=1024, limit=128,
                 contracts=None, rand=None, loop_return='break', ct_plugins=None):
        self.now = now
        self.max_items, self.max_item_size, self.limit = max_items, max_item_size, limit
        self.contracts = contracts or {}
        self.rand = rand
        self.loop_return = loop_return      # 'break' | 'propagate' (both allowed by the documents)
        self.ct_plugins = ct_plugins or []  # check_template plugin callables (ref-side stubs)
        self.loop_ret_seen = False
        self.sigext_calls = 0               # signature-related instructions executed (plugin call sites)
        self.n_calls = 0                    # cumulative CALL/EVAL executions
        self.steps = 0
        self.max_steps = 2_000_000


class VM:
    def __init__(self, env, ro=None, cache=None, flags=None, defs=None):
        self.env = env
        self.stack = []
        self.cache = dict(cache or {})          # bytes -> list[bytes]
        self.ro = dict(ro or {})                # str  -> embedder values (read only)
        self.flags = dict(DEFAULT_FLAGS)
        if flags:
            self.flags.update(flags)
        self.defs = dict(defs or {})            # handle int -> body bytes
        self.tainted_defs = set()
        # definitions and EVAL: the documents say an EVAL body works on a copy of the definitions, but not
        # whether a function defined outside and called from inside sees / changes the copy or the original.
        # level = EVAL nesting of the running code, code_lex = level at which the running code was defined,
        # frames[k] = (defs, def_lex) of level k as saved when level k+1 was entered.
        self.def_lex = {h: 0 for h in self.defs}
        self.level = 0
        self.code_lex = 0
        self.frames = []
        self.flag_changed_in = {}               # flag -> id of the body activation that ran SET/UNSET_FLAG on it
        self.body_id = 0
        self.body_counter = 0
        self.depth = 0                          # CALL/EVAL nesting
        self.top_calls = 0                      # CALLs executed at the top level of the scripts of this run (cumulative)
        self.scope = 0                          # >0 inside IF/TRY/EXCEPT/LOOP bodies (for taint)

    # ------------------------------------------------------------ stack primitives
    def pop(self):
        if not self.stack:
            raise RErr('underflow')
        return self.stack.pop()

    def popv(self):
        """pop an item whose content is about to be interpreted"""
        x = self.pop()
        if type(x) is Wild:
            raise Unspec('interpreting undetermined item')
        return x

    def popb(self):
        """pop for byte-content use: IntB of uncertain length is not determined"""
        x = self.popv()
        if type(x) is IntB:
            raise Unspec('byte-level use of an integer result above 2^53')
        return x

    def push(self, b):
        if type(b) is Wild:
            # an item whose bytes the documents do not determine (the error record of a failed TRY, a random item): its
            # length is unknown too, so against an item limit below a generous bound nothing can be said
            if self.env.max_item_size < 1024:
                raise Unspec('length of an undetermined item against a small item limit')
        elif len(b) > self.env.max_item_size:
            raise RErr('limit:item')
        if len(self.stack) >= self.env.max_items:
            raise RErr('limit:stack')
        self.stack.append(b)

    def pushint(self, n):
        b = enc_int(n)
        if len(b) > self.env.max_item_size:
            if len(b) == self.env.max_item_size + 1:
                raise Unspec('integer result within one byte of the item limit')
            raise RErr('limit:item')
        if type(b) is IntB and len(b) == self.env.max_item_size:
            raise Unspec('integer result within one byte of the item limit')
        self.push(b)

    def pushbool(self, v):
        self.push(b'\xff' if v else b'\x00')

    def flag(self, k):
        # a flag changed by SET/UNSET_FLAG is only determined for later instructions of the same body
        if k in self.flag_changed_in and self.flag_changed_in[k] != self.body_id:
            raise Unspec('flag changed by a flag instruction in another body')
        return self.flags.get(k)

    # ------------------------------------------------------------ execution
    def run(self, code):
        """run one top-level script; returns END or RET; raises RErr / Unspec"""
        return self.body(code)

    def body(self, code):
        prev_body = self.body_id
        self.body_counter += 1
        self.body_id = self.body_counter
        try:
            return self.body_(code)
        finally:
            self.body_id = prev_body

    def body_(self, code):
        pc = 0
        n = len(code)
        env = self.env

        def rd(k):
            nonlocal pc
            if k < 0 or pc + k > n:
                raise RErr('tape', 'operand past end')
            b = code[pc:pc + k]
            pc += k
            return b

        def rd1():
            return rd(1)[0]

        def rdblock():
            ln = int.from_bytes(rd(2), 'big')
            return rd(ln)

        while pc < n:
            env.steps += 1
            if env.steps > env.max_steps:
                raise Unspec('reference step horizon')
            opc = code[pc]
            pc += 1
            if opc >= FIRST_NOP:
                cnt = rd1()
                cnt = cnt - 256 if cnt >= 128 else cnt
                if cnt < 0:
                    raise RErr('nop', 'negative count')
                for _ in range(cnt):
                    self.pop()
                continue
            name = NAME[opc]
            h = getattr(self, 'op_' + name, None)
            if h is not None:
                h(rd, rd1)
                continue
            # ---- control flow (needs access to signals)
            if name == 'RETURN':
                return RET
            if name == 'DEF':
                handle = rd1()
                bodyb = rdblock()
                if self.code_lex != self.level:
                    raise Unspec('definition made by an outer function running inside an EVAL body')
                self.defs[handle] = bodyb
                self.def_lex[handle] = self.level
                if self.scope > 0:
                    self.tainted_defs.add(handle)
                else:
                    self.tainted_defs.discard(handle)
            elif name == 'CALL':
                self.call_gate()
                handle = rd1()
                if handle in self.tainted_defs:
                    raise Unspec('call of a function (re)defined inside a conditional/try/loop body')
                if self.code_lex != self.level:
                    lexd, lexl = self.frames[self.code_lex]
                    if lexd.get(handle) != self.defs.get(handle) or lexl.get(handle) != self.def_lex.get(handle):
                        raise Unspec('function lookup by an outer function running inside an EVAL body')
                if handle not in self.defs:
                    raise RErr('undefined', 'call of undefined function')
                env.n_calls += 1
                if self.depth == 0 and self.scope == 0:
                    self.top_calls += 1
                self.depth += 1
                saved_scope = self.scope
                saved_lex = self.code_lex
                self.scope = 0 if saved_scope == 0 else saved_scope
                self.code_lex = self.def_lex[handle]
                try:
                    self.body(self.defs[handle])   # RETURN returns only to the caller
                finally:
                    self.depth -= 1
                    self.scope = saved_scope
                    self.code_lex = saved_lex
            elif name == 'IF':
                blk = rdblock()
                if to_bool(self.pop()):
                    if self.nested(blk) == RET:
                        return RET
            elif name == 'IF_ELSE':
                b1 = rdblock()
                b2 = rdblock()
                if self.nested(b1 if to_bool(self.pop()) else b2) == RET:
                    return RET
            elif name == 'TRY_EXCEPT':
                b1 = rdblock()
                b2 = rdblock()
                try:
                    sig = self.nested(b1)
                except RErr:
                    self.cache[b'E'] = [WILD]
                    sig = self.nested(b2)
                if sig == RET:
                    return RET
            elif name == 'LOOP':
                blk = rdblock()
                count = 0
                while True:
                    if not self.stack:
                        raise RErr('underflow', 'loop condition')
                    if not to_bool(self.stack[-1]):
                        break
                    if count >= env.limit:
                        raise RErr('limit:loop')
                    if self.nested(blk) == RET:
                        env.loop_ret_seen = True
                        if env.loop_return == 'propagate':
                            return RET
                        break
                    count += 1
            elif name == 'EVAL':
                if self.eval_(self.pop_script()) == RET:
                    return RET
            elif name == 'MERKLEVAL':
                root = rd(32)
                # documented sequence: DUP, SHA256 x2, move item at index 2 to the top, SHA256, XOR,
                # push root, EQUAL_VERIFY, EVAL - all on the real stack, so the stack limits apply.
                # (docs.md also lists a SHA256 after the XOR; the tree tools, the merkleval unit tests / vectors
                # and property C04 all use root = sha256(sha256(script)) xor sha256(sibling), which is followed here)
                self.op_DUP(rd, rd1)
                self.op_SHA256(rd, rd1)
                self.op_SHA256(rd, rd1)
                if len(self.stack) < 3:
                    raise RErr('underflow')
                sib = self.stack.pop(-3)
                self.stack.append(sib)
                self.op_SHA256(rd, rd1)
                a = self.popb()
                b = self.popb()
                self.push(bytes(p_ ^ q_ for p_, q_ in zip(a, b)))
                self.push(root)
                self.op_EQUAL_VERIFY(rd, rd1)
                if self.eval_(self.pop_script()) == RET:
                    return RET
            elif name == 'TAPROOT':
                allowed = rd1()
                root = self.popb()
                if len(root) != 32:
                    raise RErr('type', 'root must be 32 bytes')
                if not self.stack:
                    raise RErr('underflow')
                nxt = self.stack[-1]
                if type(nxt) is Wild:
                    raise Unspec('taproot on undetermined item')
                if len(nxt) == 32:
                    pub = self.popb()
                    script = self.popb()
                    if not valid_point(pub):
                        raise RErr('crypto', 'invalid internal key')
                    t = refed.clamp_scalar(hashlib.sha256(pub + hashlib.sha256(script).digest()).digest())
                    if int.from_bytes(t, 'little') % refed.L == 0:
                        raise Unspec('zero tweak')
                    pt = refed.add_enc(refed.scalarmult_base_noclamp(t), pub)
                    if pt != root:
                        self.pushbool(False)
                    else:
                        # documented: "put the script back on the stack and OP_EVAL"
                        self.push(script)
                        if self.eval_(self.pop_script()) == RET:
                            return RET
                else:
                    env.sigext_calls += 1
                    sig = self.popb()
                    self.pushbool(self.check_sig(root, sig, allowed))
            else:
                raise Unspec('unmodelled op ' + name)
        return END

    def call_gate(self):
        """limit check of CALL / EVAL. At the top level of a script the documented cumulative count is exact: the number
        of top-level CALLs executed so far in this and the earlier scripts of the run (docs.md, run_auth_scripts: "the
        callstack_limit is enforced across the total execution via a cumulative callstack_count"). Inside bodies the
        nesting depth must not exceed the limit, and the bookkeeping beyond that is left open."""
        env = self.env
        if self.depth == 0 and self.scope == 0:
            if self.top_calls >= env.limit:
                raise RErr('limit:calls')
            return
        if self.depth >= env.limit:
            raise RErr('limit:calls')
        if self.top_calls >= env.limit:
            # the cumulative count of the top level is already at the limit: every body inherits at least that much
            raise RErr('limit:calls')
        if env.n_calls >= env.limit:
            raise Unspec('cumulative call budget accounting')

    def nested(self, blk):
        self.scope += 1
        try:
            return self.body(blk)
        finally:
            self.scope -= 1

    def pop_script(self):
        if 'disallow_OP_EVAL' in self.flags:
            raise RErr('disallowed', 'OP_EVAL disallowed')
        self.call_gate()
        return self.check_script(self.popb())

    def check_script(self, s):
        if len(s) == 0:
            raise RErr('type', 'empty script')
        return s

    def eval_(self, script):
        env = self.env
        if 'disallow_OP_EVAL' in self.flags:
            raise RErr('disallowed', 'OP_EVAL disallowed')
        self.call_gate()
        if self.code_lex != self.level and self.frames[self.code_lex] != (self.defs, self.def_lex):
            raise Unspec('EVAL by an outer function running inside an EVAL body with different definitions')
        env.n_calls += 1
        saved = (dict(self.defs), set(self.tainted_defs), dict(self.flags), dict(self.flag_changed_in), self.scope,
                 dict(self.def_lex), self.code_lex)
        self.frames.append((saved[0], saved[5]))
        self.depth += 1
        self.level += 1
        self.code_lex = self.level
        self.scope = 0
        try:
            sig = self.body(script)
        finally:
            self.depth -= 1
            self.level -= 1
            self.frames.pop()
            self.defs, self.tainted_defs, self.flags, self.flag_changed_in, self.scope, self.def_lex, self.code_lex = saved
        if sig == RET and self.flags.get('eval_return'):
            return RET
        return END

    # ------------------------------------------------------------ simple ops
    def op_FALSE(self, rd, rd1):
        self.push(b'\x00')

    def op_TRUE(self, rd, rd1):
        self.push(b'\xff')

    def op_PUSH0(self, rd, rd1):
        self.push(rd(1))

    def op_PUSH1(self, rd, rd1):
        self.push(rd(rd1()))

    def op_PUSH2(self, rd, rd1):
        self.push(rd(int.from_bytes(rd(2), 'big')))

    def message(self, flag):
        m = b''
        for i in range(8):
            k = 'sigfield%d' % (i + 1)
            if k in self.ro and not flag >> i & 1:
                v = self.ro[k]
                if type(v) is not bytes:
                    raise Unspec('non-bytes sigfield')
                m += v
        return m

    def op_GET_MESSAGE(self, rd, rd1):
        self.env.sigext_calls += 1
        self.push(self.message(rd1()))

    def op_POP0(self, rd, rd1):
        self.cache[b'P'] = [self.pop()]

    def op_POP1(self, rd, rd1):
        n = rd1()
        self.cache[b'P'] = [self.pop() for _ in range(n)]

    def op_SIZE(self, rd, rd1):
        self.pushint(len(self.popb()))

    def op_WRITE_CACHE(self, rd, rd1):
        key = rd(rd1())
        n = rd1()
        self.cache[key] = [self.pop() for _ in range(n)]

    def op_READ_CACHE(self, rd, rd1):
        key = rd(rd1())
        self.read_cache(key)

    def read_cache(self, key):
        if key not in self.cache:
            raise RErr('cache', 'missing key')
        for it in self.cache[key]:
            self.push(it)

    def op_READ_CACHE_SIZE(self, rd, rd1):
        key = rd(rd1())
        self.pushint(len(self.cache.get(key, [])))

    def op_READ_CACHE_STACK(self, rd, rd1):
        self.read_cache(bytes(self.popb()))

    def op_READ_CACHE_STACK_SIZE(self, rd, rd1):
        self.pushint(len(self.cache.get(bytes(self.popb()), [])))

    def op_ADD_INTS(self, rd, rd1):
        n = rd1()
        self.pushint(sum(dec_int(self.popv()) for _ in range(n)))

    def op_SUBTRACT_INTS(self, rd, rd1):
        n = rd1()
        t = dec_int(self.popv())
        for _ in range(n - 1):
            t -= dec_int(self.popv())
        if n == 0:
            raise Unspec('count 0')
        self.pushint(t)

    def op_MULT_INTS(self, rd, rd1):
        n = rd1()
        t = dec_int(self.popv())
        for _ in range(n - 1):
            t *= dec_int(self.popv())
            if t.bit_length() > 16 * self.env.max_item_size + 64:
                raise Unspec('huge intermediate product')
        if n == 0:
            raise Unspec('count 0')
        self.pushint(t)

    def divmod_(self, a, b, mod):
        if b == 0:
            raise RErr('arith', 'division by zero')
        # standing decision (DESIGN 2.4): the documents say "divides ... puts the quotient / remainder" without naming the
        # rounding for operands of different sign; the pinned implementation floors (Python // and %), the only
        # convention recorded anywhere for this VM, and script verdicts depend on it, so it is the reference
        q, r = a // b, a % b
        return r if mod else q

    def op_DIV_INT(self, rd, rd1):
        d = dec_int(rd(rd1()))
        self.pushint(self.divmod_(dec_int(self.popv()), d, False))

    def op_MOD_INT(self, rd, rd1):
        d = dec_int(rd(rd1()))
        self.pushint(self.divmod_(dec_int(self.popv()), d, True))

    def op_DIV_INTS(self, rd, rd1):
        a = dec_int(self.popv())
        b = dec_int(self.popv())
        self.pushint(self.divmod_(a, b, False))

    def op_MOD_INTS(self, rd, rd1):
        a = dec_int(self.popv())
        b = dec_int(self.popv())
        self.pushint(self.divmod_(a, b, True))

    # floats
    def popf(self):
        b = self.popb()
        if len(b) != 4:
            raise RErr('type', 'malformed float')
        return f32_decode(b)

    def pushf(self, x, alts=()):
        if x != x:
            raise RErr('arith', 'nan')
        e = f32_encode(x)
        if e is None:
            raise Unspec('finite float result overflows float32')
        for a in alts:
            if a != a or f32_encode(a) != e:
                raise Unspec('float result depends on accumulation / rounding order')
        self.push(e)

    def op_ADD_FLOATS(self, rd, rd1):
        n = rd1()
        vals = [self.popf() for _ in range(n)]
        t, t32 = 0.0, 0.0
        for v in vals:
            t += v
            t32 = f32_decode(f32_encode(t32 + v) or b'\x7f\x80\x00\x00') if (t32 + v) == (t32 + v) else math.nan
        if any(v != v for v in vals):
            raise RErr('arith', 'nan')
        self.pushf(t, (t32,) if n > 2 else ())

    def op_SUBTRACT_FLOATS(self, rd, rd1):
        n = rd1()
        t = self.popf()
        t32 = t
        for _ in range(n - 1):
            v = self.popf()
            t -= v
            t32 = f32_decode(f32_encode(t32 - v) or b'\x7f\x80\x00\x00') if (t32 - v) == (t32 - v) else math.nan
        if n == 0:
            raise Unspec('count 0')
        self.pushf(t, (t32,) if n > 2 else ())

    def fdiv(self, a, b):
        if b == 0.0:
            raise RErr('arith', 'float division by zero')
        return a / b

    def fmod_(self, a, b):
        if b == 0.0:
            raise RErr('arith', 'float modulo by zero')
        if a != a or b != b or a in (math.inf, -math.inf):
            raise RErr('arith', 'nan')
        return a % b      # floored, like the integer forms (standing decision, DESIGN 2.4)

    def op_DIV_FLOAT(self, rd, rd1):
        d = rd(4)
        dv = f32_decode(d)
        self.pushf(self.fdiv(self.popf(), dv))

    def op_MOD_FLOAT(self, rd, rd1):
        d = rd(4)
        dv = f32_decode(d)
        self.pushf(self.fmod_(self.popf(), dv))

    def op_DIV_FLOATS(self, rd, rd1):
        top = self.popf()
        second = self.popf()
        # docs.md says second / top, the unit test's naming says top / second: either is accepted
        if top == 0.0 or second == 0.0:
            if top == 0.0 and second == 0.0:
                raise RErr('arith', 'float division by zero')
            raise Unspec('DIV_FLOATS operand order (docs vs unit test)')
        a, b = top / second, second / top
        if (a != a) and (b != b):
            raise RErr('arith', 'nan')
        if a != a or b != b or f32_encode(a) != f32_encode(b):
            raise Unspec('DIV_FLOATS operand order (docs vs unit test)')
        self.pushf(a)

    def op_MOD_FLOATS(self, rd, rd1):
        top = self.popf()
        second = self.popf()
        self.pushf(self.fmod_(second, top))

    def op_FLOAT_LESS(self, rd, rd1):
        a = self.popf()
        b = self.popf()
        self.pushbool(a < b)

    def op_FLOAT_LESS_OR_EQUAL(self, rd, rd1):
        a = self.popf()
        b = self.popf()
        self.pushbool(a <= b)

    def op_INT_TO_FLOAT(self, rd, rd1):
        v = dec_int(self.popv())
        try:
            x = float(v)
        except OverflowError:
            raise Unspec('int too large for float')
        e = f32_encode(x)
        if e is None:
            raise Unspec('int too large for float32')
        # double rounding (int->double->single) vs direct rounding may differ in ties
        if abs(v) >= (1 << 53):
            raise Unspec('double rounding of a large int')
        self.push(e)

    def op_FLOAT_TO_INT(self, rd, rd1):
        x = self.popf()
        if x != x or x in (math.inf, -math.inf):
            raise RErr('arith', 'non-finite float to int')
        self.pushint(int(x))

    def op_LESS(self, rd, rd1):
        a = dec_int(self.popv())
        b = dec_int(self.popv())
        self.pushbool(a < b)

    def op_LESS_OR_EQUAL(self, rd, rd1):
        a = dec_int(self.popv())
        b = dec_int(self.popv())
        self.pushbool(a <= b)

    # stack manipulation
    def op_COPY(self, rd, rd1):
        n = rd1()
        it = self.pop()
        for _ in range(n + 1):
            self.push(it)

    def op_DUP(self, rd, rd1):
        it = self.pop()
        self.push(it)
        self.push(it)

    def op_DEPTH(self, rd, rd1):
        self.pushint(len(self.stack))

    def op_SWAP(self, rd, rd1):
        i, j = rd1(), rd1()
        if i == j:
            if i >= len(self.stack):
                raise Unspec('SWAP with equal out-of-range indices')
            return
        if max(i, j) >= len(self.stack):
            raise RErr('stack', 'swap index')
        s = self.stack
        s[-1 - i], s[-1 - j] = s[-1 - j], s[-1 - i]

    def op_SWAP2(self, rd, rd1):
        a = self.pop()
        b = self.pop()
        self.push(a)
        self.push(b)

    def op_REVERSE(self, rd, rd1):
        n = rd1()
        if n > len(self.stack):
            raise RErr('stack', 'reverse count')
        if n:
            self.stack[-n:] = self.stack[-n:][::-1]

    def op_CONCAT(self, rd, rd1):
        top = self.popb()
        second = self.popb()
        self.push(second + top)

    def op_SPLIT(self, rd, rd1):
        idx = dec_int(self.popv())
        it = self.popb()
        if idx < 0 or idx > len(it):
            raise RErr('index')
        if idx == len(it):
            raise Unspec('SPLIT at index == length')
        self.push(it[:idx])
        self.push(it[idx:])

    def utf8(self, b):
        try:
            return str(bytes(b), 'utf-8')
        except UnicodeDecodeError:
            raise RErr('type', 'invalid utf-8')

    def op_CONCAT_STR(self, rd, rd1):
        top = self.utf8(self.popb())
        second = self.utf8(self.popb())
        self.push((second + top).encode('utf-8'))

    def op_SPLIT_STR(self, rd, rd1):
        idx = dec_int(self.popv())
        it = self.utf8(self.popb())
        if idx < 0 or idx > len(it):
            raise RErr('index')
        if idx == len(it):
            raise Unspec('SPLIT_STR at index == length')
        self.push(it[:idx].encode('utf-8'))
        self.push(it[idx:].encode('utf-8'))

    def op_SHA256(self, rd, rd1):
        self.push(hashlib.sha256(self.popb()).digest())

    def op_SHAKE256(self, rd, rd1):
        n = rd1()
        self.push(hashlib.shake_256(self.popb()).digest(n))

    def op_VERIFY(self, rd, rd1):
        if not to_bool(self.pop()):
            raise RErr('verify')

    def op_EQUAL(self, rd, rd1):
        a = self.popb()
        b = self.popb()
        self.pushbool(bytes(a) == bytes(b))

    def op_EQUAL_VERIFY(self, rd, rd1):
        a = self.popb()
        b = self.popb()
        if bytes(a) != bytes(b):
            raise RErr('verify')

    def op_NOT(self, rd, rd1):
        self.push(bytes(x ^ 0xff for x in self.popb()))

    def bitop(self, f):
        a = self.popb()
        b = self.popb()
        n = max(len(a), len(b))
        # "Pads the shorter length value with x00": the padding is appended (the value is extended at its end), which is
        # the reading under which the result keeps the longer item's byte positions; standing decision, see DESIGN 2.4
        a2, b2 = a.ljust(n, b'\0'), b.ljust(n, b'\0')
        self.push(bytes(f(p, q) for p, q in zip(a2, b2)))

    def op_XOR(self, rd, rd1):
        self.bitop(lambda p, q: p ^ q)

    def op_OR(self, rd, rd1):
        self.bitop(lambda p, q: p | q)

    def op_AND(self, rd, rd1):
        self.bitop(lambda p, q: p & q)

    def op_RANDOM(self, rd, rd1):
        n = dec_int(self.popv())
        if n < 0:
            raise RErr('arith', 'negative size')
        if n > self.env.max_item_size:
            raise RErr('limit:item')
        if self.env.rand is None:
            raise Unspec('no random source')
        self.push(self.env.rand(n))

    # flags
    def flagkey(self, b):
        if len(b) == 0:
            raise Unspec('empty flag name')
        return int.from_bytes(b, 'big', signed=True)

    def op_SET_FLAG(self, rd, rd1):
        k = self.flagkey(rd(rd1()))
        if k not in DEFAULT_FLAGS:
            raise RErr('flag', 'unrecognized flag')
        self.flags[k] = DEFAULT_FLAGS[k]
        self.flag_changed_in[k] = self.body_id

    def op_UNSET_FLAG(self, rd, rd1):
        k = self.flagkey(rd(rd1()))
        if k in DEFAULT_FLAGS or k in self.flags:
            self.flags.pop(k, None)
            self.flag_changed_in[k] = self.body_id

    # time
    def popconstraint(self):
        c = self.popb()
        if len(c) == 0:
            raise RErr('type', 'empty constraint')
        return int.from_bytes(c, 'big')

    def cts(self):
        c = self.popconstraint()
        t = self.ro.get('timestamp')
        if type(t) is not int:
            raise RErr('type', 'timestamp')
        thr = self.flag('ts_threshold')
        if type(thr) is not int:
            raise RErr('type', 'ts_threshold')
        return t >= c and (thr <= 0 or t - self.env.now < thr)

    def op_CHECK_TIMESTAMP(self, rd, rd1):
        self.pushbool(self.cts())

    def op_CHECK_TIMESTAMP_VERIFY(self, rd, rd1):
        if not self.cts():
            raise RErr('verify')

    def ce(self):
        c = self.popconstraint()
        thr = self.flag('epoch_threshold')
        if type(thr) is not int or thr < 0:
            raise RErr('type', 'epoch_threshold')
        return c - self.env.now < thr

    def op_CHECK_EPOCH(self, rd, rd1):
        self.pushbool(self.ce())

    def op_CHECK_EPOCH_VERIFY(self, rd, rd1):
        if not self.ce():
            raise RErr('verify')

    def op_GET_VALUE(self, rd, rd1):
        key = self.utf8(rd(rd1()))
        if key not in self.ro:
            raise RErr('cache', 'missing value')
        v = self.ro[key]
        for x in (v if type(v) in (list, tuple) else [v]):
            if type(x) in (bytes, bytearray):
                self.push(bytes(x))
            elif type(x) is str:
                self.push(x.encode('utf-8'))
            elif type(x) is int:
                self.pushint(x)
            elif type(x) is float:
                e = f32_encode(x)
                if e is None or f32_decode(e) != x:
                    raise Unspec('float value not representable in 32 bits')
                self.push(e)
            else:
                raise Unspec('GET_VALUE of unsupported type')

    # signatures
    def thr_flag(self, k):
        return self.flag(k)

    def check_sig(self, key, sig, allowed):
        if len(key) != 32 or len(sig) not in (64, 65):
            raise RErr('type', 'key/signature length')
        flag = sig[64] if len(sig) == 65 else 0
        if flag & ~allowed & 0xff:
            raise RErr('sigflag', 'disallowed sigflag')
        return refed.verify_strict(bytes(key), self.message(flag), bytes(sig[:64]))

    def op_CHECK_SIG(self, rd, rd1):
        self.env.sigext_calls += 1
        allowed = rd1()
        key = self.popb()
        sig = self.popb()
        self.pushbool(self.check_sig(key, sig, allowed))

    def op_CHECK_SIG_VERIFY(self, rd, rd1):
        self.env.sigext_calls += 1
        allowed = rd1()
        key = self.popb()
        sig = self.popb()
        if not self.check_sig(key, sig, allowed):
            raise RErr('verify')

    def multisig(self, rd1):
        self.env.sigext_calls += 1
        allowed, m, n = rd1(), rd1(), rd1()
        keys = [self.popb() for _ in range(n)]
        sigs = [self.popb() for _ in range(m)]
        # validity relation; malformed items / disallowed flags are errors
        rel = []
        malformed = False
        for s in sigs:
            row = []
            for k in keys:
                try:
                    row.append(self.check_sig(k, s, allowed))
                except RErr:
                    # malformed item / non-permitted flag: an error or false, never true; an
                    # implementation may or may not consult this pair
                    malformed = True
                    row.append(False)
            rel.append(row)
        if m > n:
            if malformed:
                raise Unspec('multisig with malformed items: false or error')
            return False
        if len(set(bytes(k) for k in keys)) != len(keys):
            raise Unspec('duplicate keys in multisig')
        # maximum bipartite matching sigs -> keys
        match = {}

        def aug(i, seen):
            for j in range(n):
                if rel[i][j] and j not in seen:
                    seen.add(j)
                    if j not in match or aug(match[j], seen):
                        match[j] = i
                        return True
            return False
        res = all(aug(i, set()) for i in range(m))
        if malformed:
            # whether a malformed key/signature or a non-permitted flag is consulted (=> error) depends on the
            # matching order, which the documents do not fix; C03 decides the never-true direction
            raise Unspec('multisig with malformed items: error or the matching verdict')
        return res

    def op_CHECK_MULTISIG(self, rd, rd1):
        self.pushbool(self.multisig(rd1))

    def op_CHECK_MULTISIG_VERIFY(self, rd, rd1):
        if not self.multisig(rd1):
            raise RErr('verify')

    def op_SIGN(self, rd, rd1):
        self.env.sigext_calls += 1
        flag = rd1()
        seed = self.popb()
        if len(seed) != 32:
            raise RErr('type', 'seed length')
        sig = refed.sign(bytes(seed), self.message(flag)) + (bytes([flag]) if flag else b'')
        if self.flag(9):
            self.cache[b's'] = sig
        self.push(sig)

    def op_SIGN_STACK(self, rd, rd1):
        seed = self.popb()
        msg = self.popb()
        if len(seed) != 32:
            raise RErr('type', 'seed length')
        sig = refed.sign(bytes(seed), bytes(msg))
        if self.flag(9):
            self.cache[b's'] = sig
        self.push(sig)

    def op_CHECK_SIG_STACK(self, rd, rd1):
        key = self.popb()
        if len(key) != 32:
            raise RErr('type', 'key length')
        msg = self.popb()
        sig = self.popb()
        if len(sig) != 64:
            raise RErr('type', 'signature length')
        self.pushbool(refed.verify_strict(bytes(key), bytes(msg), bytes(sig)))

    # scalars / points
    def op_DERIVE_SCALAR(self, rd, rd1):
        seed = self.popb()
        a, _ = refed.secret_expand(bytes(seed))
        x = a.to_bytes(32, 'little')
        if self.flag(1):
            self.cache[b'x'] = x
        self.push(x)

    def op_CLAMP_SCALAR(self, rd, rd1):
        is_key = rd1() != 0
        v = self.popb()
        if len(v) < 32:
            raise RErr('type', 'scalar shorter than 32 bytes')
        if len(v) > 32:
            raise Unspec('CLAMP_SCALAR of an item longer than 32 bytes')
        self.push(refed.clamp_scalar(bytes(v), is_key))

    def scalar(self, b):
        if len(b) != 32:
            raise RErr('type', 'scalar length')
        return int.from_bytes(b, 'little')

    def op_ADD_SCALARS(self, rd, rd1):
        n = rd1()
        items = [self.popb() for _ in range(n)]
        if n == 0:
            raise RErr('arith', 'no scalars')
        if n == 1:
            raise Unspec('ADD_SCALARS of a single item')
        acc = self.scalar(items[0])
        for b in items[1:]:
            y = self.scalar(b)
            if acc + y >= 1 << 256:
                raise Unspec('scalar sum of non-reduced inputs overflows 256 bits')
            acc = (acc + y) % refed.L
        self.push(refed.sc_enc(acc))

    def op_SUBTRACT_SCALARS(self, rd, rd1):
        n = rd1()
        if n == 0:
            raise Unspec('count 0')
        first = self.popb()
        rest = [self.popb() for _ in range(n - 1)]
        if n == 1:
            raise Unspec('SUBTRACT_SCALARS of a single item')
        acc = self.scalar(first)
        for b in rest:
            y = (-self.scalar(b)) % refed.L
            if acc + y >= 1 << 256:
                raise Unspec('scalar difference of non-reduced inputs overflows 256 bits')
            acc = (acc + y) % refed.L
        self.push(refed.sc_enc(acc))

    def op_DERIVE_POINT(self, rd, rd1):
        x = self.popb()
        if len(x) != 32:
            raise RErr('type', 'scalar length')
        s = int.from_bytes(x, 'little') & ((1 << 255) - 1)
        if s % refed.L == 0:
            raise Unspec('zero scalar')
        X = refed.base_mul_enc(s)
        if self.flag(2):
            self.cache[b'X'] = X
        self.push(X)

    def op_ADD_POINTS(self, rd, rd1):
        n = rd1()
        pts = [self.popb() for _ in range(n)]
        if n == 0:
            raise RErr('arith', 'no points')
        for p_ in pts:
            if not valid_point(p_):
                raise RErr('crypto', 'invalid point')
        acc = refed.point_decompress(bytes(pts[0]))
        for p_ in pts[1:]:
            acc = refed.point_add(acc, refed.point_decompress(bytes(p_)))
        if refed.point_equal(acc, refed.IDENT):
            raise Unspec('sum is the identity')
        self.push(refed.point_compress(acc))

    def op_SUBTRACT_POINTS(self, rd, rd1):
        n = rd1()
        if n == 0:
            raise Unspec('count 0')
        first = self.popb()
        rest = [self.popb() for _ in range(n - 1)]
        if n == 1:
            raise Unspec('SUBTRACT_POINTS of a single item')
        for p_ in [first] + rest:
            if not valid_point(p_):
                if len(p_) != 32 or refed.point_decompress(bytes(p_)) is None:
                    yb = int.from_bytes(p_, 'little') & ((1 << 255) - 1) if len(p_) == 32 else 0
                    if len(p_) == 32 and yb >= refed.p:
                        raise Unspec('non-canonical point encoding')
                    raise RErr('crypto', 'invalid point')
                raise Unspec('small-order / mixed-order point in SUBTRACT_POINTS')
        acc = refed.point_decompress(bytes(first))
        for p_ in rest:
            acc = refed.point_add(acc, refed.point_neg(refed.point_decompress(bytes(p_))))
            if refed.point_equal(acc, refed.IDENT):
                raise Unspec('difference is the identity')
        self.push(refed.point_compress(acc))

    # adapters: nonce choice is implementation defined -> outputs undetermined
    def op_MAKE_ADAPTER_SIG_PUBLIC(self, rd, rd1):
        T = self.popb()
        self.popb()
        seed = self.popb()
        if not valid_point(T):
            raise RErr('crypto', 'invalid tweak point')
        if len(seed) == 0:
            raise Unspec('empty seed')
        for fl, k in ((3, b'r'), (4, b'R'), (8, b'sa')):
            if self.flag(fl):
                self.cache[k] = WILD
        if self.flag(6):
            self.cache[b'T'] = bytes(T)
        self.push(WILD)
        self.push(WILD)

    def op_MAKE_ADAPTER_SIG_PRIVATE(self, rd, rd1):
        seed = self.popb()
        t = self.popb()
        self.popb()
        if len(t) < 32:
            raise RErr('type', 'tweak scalar length')
        if len(t) > 32 or len(seed) == 0:
            raise Unspec('tweak longer than 32 bytes / empty seed')
        tc = refed.clamp_scalar(bytes(t))
        if int.from_bytes(tc, 'little') % refed.L == 0:
            raise Unspec('zero tweak')
        Tp = refed.scalarmult_base_noclamp(tc)
        if self.flag(4):
            self.cache[b'R'] = WILD
        if self.flag(5):
            self.cache[b't'] = tc
        if self.flag(6):
            self.cache[b'T'] = Tp
        if self.flag(8):
            self.cache[b'sa'] = WILD
        self.push(Tp)
        self.push(WILD)
        self.push(WILD)

    def op_CHECK_ADAPTER_SIG(self, rd, rd1):
        X = self.popb()
        Tp = self.popb()
        m = self.popb()
        R = self.popb()
        sa = self.popb()
        if len(sa) != 32:
            raise RErr('type', 'adapter scalar length')
        for p_ in (R, Tp):
            if not valid_point(p_):
                raise RErr('crypto', 'invalid point')
        if not valid_point(X):
            raise RErr('crypto', 'invalid key')
        if int.from_bytes(sa, 'little') >= refed.L:
            raise Unspec('non-canonical adapter scalar')
        RT = refed.add_enc(bytes(R), bytes(Tp))
        if refed.point_equal(refed.point_decompress(RT), refed.IDENT):
            raise Unspec('R + T is the identity')
        c = refed.sha512_modq(RT + bytes(X) + bytes(m))
        if c == 0 or int.from_bytes(sa, 'little') == 0:
            raise Unspec('zero scalar')
        rhs = refed.add_enc(bytes(R), refed.mul_enc(c, bytes(X)))
        self.pushbool(refed.base_mul_enc(int.from_bytes(sa, 'little')) == rhs)

    def op_DECRYPT_ADAPTER_SIG(self, rd, rd1):
        t = self.popb()
        R = self.popb()
        sa = self.popb()
        if len(t) < 32:
            raise RErr('type', 'tweak scalar length')
        if len(t) > 32:
            raise Unspec('tweak longer than 32 bytes')
        if len(sa) != 32:
            raise RErr('type', 'adapter scalar length')
        if not valid_point(R):
            raise RErr('crypto', 'invalid point')
        te = int.from_bytes(t, 'little') & ((1 << 255) - 1)
        if te % refed.L == 0:
            raise Unspec('zero tweak')
        RT = refed.add_enc(bytes(R), refed.base_mul_enc(te))
        if refed.point_equal(refed.point_decompress(RT), refed.IDENT):
            raise Unspec('R + T is the identity')
        if int.from_bytes(sa, 'little') + te >= 1 << 256:
            raise Unspec('scalar sum of non-reduced inputs overflows 256 bits')
        s = refed.sc_enc(int.from_bytes(sa, 'little') + te)
        if self.flag(7):
            self.cache[b'RT'] = RT
        if self.flag(9):
            self.cache[b's'] = s
        self.push(RT)
        self.push(s)

    # contracts / templates
    def op_INVOKE(self, rd, rd1):
        cid = self.popb()
        argc = dec_int(self.popv())
        if argc < 0:
            raise RErr('arith', 'negative argcount')
        args = [self.pop() for _ in range(argc)]
        if bytes(cid) not in self.env.contracts:
            raise RErr('contract', 'unknown contract')
        c = self.env.contracts[bytes(cid)]
        if not hasattr(c, 'abi'):
            raise RErr('contract', 'interface')
        if any(type(a) is Wild for a in args):
            raise Unspec('undetermined contract argument')
        res = c.abi([bytes(a) for a in args])
        if res is None:
            return
        if type(res) not in (list, tuple):
            raise RErr('type', 'abi return value')
        for r_ in res:
            if type(r_) is not bytes:
                raise RErr('type', 'abi return value')
            self.push(r_)
        if self.flag(0):
            self.cache[b'IR'] = list(res)

    def op_CHECK_TRANSFER(self, rd, rd1):
        cid = self.popb()
        amount = dec_int(self.popv())
        constraint = self.popb()
        dest = self.popb()
        cb = self.popb()
        count = int.from_bytes(cb, 'big')
        if count > len(self.stack) + 1:
            raise RErr('underflow')
        sources = [self.popb() for _ in range(count)]
        proofs = [self.popb() for _ in range(count)]
        if bytes(cid) not in self.env.contracts:
            raise RErr('contract', 'unknown contract')
        c = self.env.contracts[bytes(cid)]
        if not all(hasattr(c, a) for a in ('verify_txn_proof', 'verify_transfer', 'verify_txn_constraint', 'calc_txn_aggregates')):
            raise RErr('contract', 'interface')
        ok = True
        for i in range(count):
            ok &= bool(c.verify_txn_proof(bytes(proofs[i])))
            ok &= bool(c.verify_transfer(bytes(proofs[i]), bytes(sources[i]), bytes(dest)))
            if len(constraint):
                ok &= bool(c.verify_txn_constraint(bytes(proofs[i]), bytes(constraint)))
        agg = c.calc_txn_aggregates([bytes(p_) for p_ in proofs], scope=bytes(dest))
        if bytes(dest) not in agg:
            raise Unspec('aggregate without the destination')
        self.pushbool(ok and amount <= agg[bytes(dest)])

    def template(self, rd1):
        if 10 not in self.flags:
            self.flag(10)
            raise Unspec('CHECK_TEMPLATE with flag 10 unset (docs: "if set to True", default True)')
        if self.flag(10):
            self.env.sigext_calls += 1
        flag = rd1()
        ok = True
        for i in range(8):
            if not flag >> i & 1:
                continue
            tmpl = self.popb()
            k = 'sigfield%d' % (i + 1)
            if k not in self.ro:
                raise RErr('cache', 'missing sigfield')
            field = self.ro[k]
            if self.env.ct_plugins:
                res = [p_(bytes(field), bytes(tmpl)) for p_ in self.env.ct_plugins]
                ok = ok and any(res)
            else:
                ok = ok and bytes(tmpl) == field
        return ok

    def op_CHECK_TEMPLATE(self, rd, rd1):
        self.pushbool(self.template(rd1))

    def op_CHECK_TEMPLATE_VERIFY(self, rd, rd1):
        if not self.template(rd1):
            raise RErr('verify')


def items_match(ref_items, impl_items):
    """ref items may contain Wild (anything) and IntB (same value, length within one byte)"""
    if len(ref_items) != len(impl_items):
        return False
    for r, i in zip(ref_items, impl_items):
        if type(r) is Wild:
            continue
        if type(r) is IntB:
            if len(i) == 0 or int.from_bytes(i, 'big', signed=True) != int.from_bytes(r, 'big', signed=True) \
                    or not (len(r) <= len(i) <= len(r) + 1):
                return False
            continue
        if bytes(r) != bytes(i):
            return False
    return True


def cache_match(ref_cache, impl_cache):
    """compare the script-visible (bytes keyed) entries"""
    ik = {k: v for k, v in impl_cache.items() if type(k) is bytes}
    if set(ik) != set(ref_cache):
        return False
    for k, rv in ref_cache.items():
        iv = ik[k]
        if type(rv) is Wild:
            continue
        if type(rv) is bytes:          # single value entries (crypto side effects)
            if bytes(iv) != rv if type(iv) in (bytes, bytearray) else True:
                return False
            continue
        if type(iv) not in (list, tuple) or not items_match(rv, list(iv)):
            return False
    return True


def run_scripts(scripts, env, ro=None, cache=None, flags=None):
    """reference for run_script / run_auth_scripts: shared stack/cache/defs, fresh control state per
    script. Returns ('ok', stack, cache) | ('error', cat); raises Unspec."""
    vm = VM(env, ro=ro, cache=cache, flags=flags)
    try:
        for s in scripts:
            vm.run(bytes(s))
            # flags are per script: each script starts from the embedder's configuration
            vm.flags = dict(DEFAULT_FLAGS)
            if flags:
                vm.flags.update(flags)
            vm.flag_changed_in = {}
    except RErr as e:
        return ('error', e.cat)
    return ('ok', vm.stack, vm.cache)
