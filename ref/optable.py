"""Opcode numbering transcribed from docs.md ("## OP_X - n - xNN" headings). Static on purpose:
the reference models must not read the implementation's table."""
NAMES = """FALSE TRUE PUSH0 PUSH1 PUSH2 GET_MESSAGE POP0 POP1 SIZE WRITE_CACHE READ_CACHE READ_CACHE_SIZE
READ_CACHE_STACK READ_CACHE_STACK_SIZE ADD_INTS SUBTRACT_INTS MULT_INTS DIV_INT DIV_INTS MOD_INT MOD_INTS
ADD_FLOATS SUBTRACT_FLOATS DIV_FLOAT DIV_FLOATS MOD_FLOAT MOD_FLOATS ADD_POINTS COPY DUP SHA256 SHAKE256
VERIFY EQUAL EQUAL_VERIFY CHECK_SIG CHECK_SIG_VERIFY CHECK_TIMESTAMP CHECK_TIMESTAMP_VERIFY CHECK_EPOCH
CHECK_EPOCH_VERIFY DEF CALL IF IF_ELSE EVAL NOT RANDOM RETURN SET_FLAG UNSET_FLAG DEPTH SWAP SWAP2 REVERSE
CONCAT SPLIT CONCAT_STR SPLIT_STR CHECK_TRANSFER MERKLEVAL TRY_EXCEPT LESS LESS_OR_EQUAL GET_VALUE FLOAT_LESS
FLOAT_LESS_OR_EQUAL INT_TO_FLOAT FLOAT_TO_INT LOOP CHECK_MULTISIG CHECK_MULTISIG_VERIFY SIGN SIGN_STACK
CHECK_SIG_STACK DERIVE_SCALAR CLAMP_SCALAR ADD_SCALARS SUBTRACT_SCALARS DERIVE_POINT SUBTRACT_POINTS
MAKE_ADAPTER_SIG_PUBLIC MAKE_ADAPTER_SIG_PRIVATE CHECK_ADAPTER_SIG DECRYPT_ADAPTER_SIG INVOKE XOR OR AND
CHECK_TEMPLATE CHECK_TEMPLATE_VERIFY TAPROOT""".split()
assert len(NAMES) == 92
OP = {n: i for i, n in enumerate(NAMES)}
NAME = {i: n for i, n in enumerate(NAMES)}
FIRST_NOP = 92


def op(name):
    return bytes([OP[name]])


def push(b):
    """smallest push of item b"""
    if len(b) == 1:
        return b'\x02' + b
    if len(b) < 256:
        return b'\x03' + bytes([len(b)]) + b
    assert len(b) < 65536
    return b'\x04' + len(b).to_bytes(2, 'big') + b


def push1(b):
    assert len(b) < 256
    return b'\x03' + bytes([len(b)]) + b


def check_against_docs(path='/repo/docs.md'):
    import re
    got = {}
    for line in open(path):
        m = re.match(r'^## OP_(\w+) - (\d+) - x([0-9A-F]{2})', line)
        if m:
            got[m.group(1)] = int(m.group(2))
    return got == OP
