"""python3-vt mc/validate_evidence.py [ids...] : validate evidence + manifest against the schemas"""
import json, sys, glob, os
import jsonschema
V = os.path.dirname(os.path.dirname(os.path.abspath(__file__)))
es = json.load(open('/root/.vp/EVIDENCE.schema.json')) if os.path.exists('/root/.vp/EVIDENCE.schema.json') else None
ms = json.load(open('/root/.vp/MANIFEST.schema.json')) if os.path.exists('/root/.vp/MANIFEST.schema.json') else None
bad = 0
if ms and os.path.exists(V + '/MANIFEST.json'):
    try:
        jsonschema.validate(json.load(open(V + '/MANIFEST.json')), ms); print('MANIFEST ok')
    except Exception as e:
        bad += 1; print('MANIFEST INVALID', str(e)[:500])
for p in sorted(glob.glob(V + '/evidence/*.json')):
    if sys.argv[1:] and os.path.basename(p)[:-5] not in sys.argv[1:]:
        continue
    try:
        jsonschema.validate(json.load(open(p)), es); print(os.path.basename(p), 'ok')
    except Exception as e:
        bad += 1; print(os.path.basename(p), 'INVALID', str(e)[:500])
sys.exit(1 if bad else 0)
