import argparse
import importlib
import os
import sys

HERE = os.path.dirname(os.path.abspath(__file__))
sys.path.insert(0, os.path.dirname(HERE))

import resource  # noqa: E402
sys.setrecursionlimit(1000)  # the host default; C07 relies on it being the default
sys.set_int_max_str_digits(0)

def main():
    ap = argparse.ArgumentParser()
    ap.add_argument('prop')
    ap.add_argument('--tier', default=os.environ.get('VERIF_TIER') or 'quick',
                    choices=['quick', 'thorough'])
    ap.add_argument('--replay')
    ap.add_argument('--only', help='comma separated block-name prefixes (debugging)')
    a = ap.parse_args()
    try:
        seed = int(os.environ.get('VERIF_SEED', '0') or 0)
    except ValueError:
        seed = 0
    pid = a.prop.upper()
    from mc import env  # noqa: F401  (patches clock/randomness, imports /repo)
    from mc import run
    mod = importlib.import_module('props.' + pid.lower())
    if a.replay:
        sys.exit(run.replay(pid, a.replay, mod.blocks))
    blocks = mod.blocks(a.tier, seed)
    exhaustive = True
    if a.only:
        pre = a.only.split(',')
        blocks = [b for b in blocks if any(b.name.startswith(p) for p in pre)]
        exhaustive = False
    meta = mod.meta(a.tier, seed) if hasattr(mod, 'meta') else {}
    meta.setdefault('exhaustive', exhaustive)
    if not exhaustive:
        meta['exhaustive'] = False
    sys.exit(run.run_check(pid, a.tier, seed, blocks, **meta))


if __name__ == '__main__':
    main()
