"""Step monitor: observes the real VM through objects an embedder can already pass to run_tape
(Stack / deque / dict subclasses) and through wrappers on four public names
(classes.Tape.read, classes.Tape.move_pointer, functions.opcodes / nopcodes table entries,
functions.run_tape).  Installed in the harness process only; /repo is not touched.
"""
import collections

from mc import env

F, C = env.functions, env.classes
SEE = env.errors.ScriptExecutionError


class Horizon(BaseException):
    """instruction horizon reached: a run that does not end"""


class Mon:
    """per-run monitor state"""
    active = None

    def __init__(self, limits, horizon=200000):
        self.max_items, self.max_item_size, self.limit = limits
        self.horizon = horizon
        self.problems = []            # (invariant, detail)
        self.instr = 0
        self.frames = []              # active instruction frames [opname, loop_iterations]
        self.depth = 0                # CALL/EVAL nesting
        self.max_depth = 0
        self.calls_executed = 0       # CALL / EVAL instructions executed (incl. the EVAL inside MERKLEVAL / TAPROOT)
        self.hw_items = 0
        self.hw_item = 0
        self.puts = 0
        self.gets = 0
        self.reads = 0
        self.max_loop_iters = 0
        self.state_hashes = set()
        self.top_caches = []          # the cache object each top-level script ran on (run_tape entered outside any instruction)

    def problem(self, inv, detail):
        if len(self.problems) < 5:
            self.problems.append((inv, detail))


class RecDeque(collections.deque):
    """the stack storage; every mutation is checked against the configured limits"""

    def _chk(self, item):
        m = Mon.active
        if m is None:
            return
        if type(item) is not bytes:
            m.problem('stack item type', repr(type(item)))
        elif len(item) > m.max_item_size:
            m.problem('item longer than max_item_size', f'{len(item)} > {m.max_item_size}')
        if type(item) is bytes and len(item) > m.hw_item:
            m.hw_item = len(item)

    def append(self, item):
        m = Mon.active
        if m is not None:
            m.puts += 1
            if self.maxlen is not None and len(self) >= self.maxlen:
                m.problem('silently dropped stack item', f'append on a full deque (maxlen {self.maxlen})')
            if len(self) + 1 > m.max_items:
                m.problem('more than max_items items', f'{len(self) + 1} > {m.max_items}')
            self._chk(item)
        super().append(item)
        if m is not None and len(self) > m.hw_items:
            m.hw_items = len(self)

    def appendleft(self, item):
        m = Mon.active
        if m is not None:
            m.puts += 1
            if self.maxlen is not None and len(self) >= self.maxlen:
                m.problem('silently dropped stack item', 'appendleft on a full deque')
            self._chk(item)
        super().appendleft(item)

    def extend(self, items):
        for i in items:
            self.append(i)

    def insert(self, i, item):
        m = Mon.active
        if m is not None:
            m.puts += 1
            self._chk(item)
        super().insert(i, item)

    def pop(self):
        m = Mon.active
        if m is not None:
            m.gets += 1
        return super().pop()

    def popleft(self):
        m = Mon.active
        if m is not None:
            m.gets += 1
        return super().popleft()

    def __setitem__(self, i, item):
        self._chk(item)
        super().__setitem__(i, item)


class MonStack(C.Stack):
    def __init__(self, max_items=1024, max_item_size=1024):
        self.max_items = max_items
        self.max_item_size = max_item_size
        self.deque = RecDeque(maxlen=max_items)


class RecCache(dict):
    """logs every mutation with the key (for C08: only bytes keys may be written by scripts)"""

    def __init__(self, *a, **k):
        super().__init__(*a, **k)
        self.log = []

    def __setitem__(self, k, v):
        self.log.append(('set', k))
        super().__setitem__(k, v)

    def __delitem__(self, k):
        self.log.append(('del', k))
        super().__delitem__(k)

    def pop(self, k, *d):
        self.log.append(('pop', k))
        return super().pop(k, *d)

    def popitem(self):
        k, v = super().popitem()
        self.log.append(('popitem', k))
        return k, v

    def update(self, *a, **kw):
        for k in dict(*a, **kw):
            self.log.append(('update', k))
        super().update(*a, **kw)

    def setdefault(self, k, d=None):
        if k not in self:
            self.log.append(('setdefault', k))
        return super().setdefault(k, d)

    def clear(self):
        for k in list(self):
            self.log.append(('clear', k))
        super().clear()

    def __ior__(self, other):
        for k in other:
            self.log.append(('ior', k))
        return super().__ior__(other)


_installed = False
_orig = {}


def install():
    """attach the class/table level wrappers (idempotent); fails loudly if a name is missing"""
    global _installed
    if _installed:
        return
    for obj, name in ((C.Tape, 'read'), (C.Tape, 'move_pointer'), (F, 'opcodes'), (F, 'nopcodes'), (F, 'run_tape')):
        if not hasattr(obj, name):
            raise RuntimeError(f'cannot attach: {obj.__name__}.{name} missing')
    orig_read, orig_move = C.Tape.read, C.Tape.move_pointer
    _orig['read'], _orig['move'] = orig_read, orig_move

    def read(self, size, move_pointer=True):
        m = Mon.active
        before = self.pointer
        out = orig_read(self, size, move_pointer)
        if m is not None:
            m.reads += 1
            after = self.pointer
            if not (0 <= before <= after <= len(self.data)) or size < 0:
                m.problem('tape pointer moved backwards or past the end',
                          f'read({size}): pointer {before} -> {after}, len {len(self.data)}')
        return out

    def move_pointer(self, n):
        m = Mon.active
        before = self.pointer
        out = orig_move(self, n)
        if m is not None:
            after = self.pointer
            if not (0 <= before <= after <= len(self.data)) or n < 0:
                m.problem('tape pointer moved backwards or past the end',
                          f'move_pointer({n}): pointer {before} -> {after}, len {len(self.data)}')
        return out

    C.Tape.read = read
    C.Tape.move_pointer = move_pointer

    def wrap_op(name, fn):
        is_call = name in ('OP_CALL', 'OP_EVAL')

        def w(tape, stack, cache):
            m = Mon.active
            if m is None:
                return fn(tape, stack, cache)
            m.instr += 1
            if m.instr > m.horizon:
                raise Horizon()
            if is_call:
                m.calls_executed += 1
            fr = [name, 0]
            m.frames.append(fr)
            before = getattr(tape, 'pointer', 0)
            try:
                return fn(tape, stack, cache)
            finally:
                m.frames.pop()
                after = getattr(tape, 'pointer', 0)
                data = getattr(tape, 'data', None)
                if data is not None and not (0 <= before <= after <= len(data)):
                    # also catches pointer arithmetic that bypasses Tape.read / Tape.move_pointer
                    m.problem('tape pointer moved backwards or past the end',
                              f'{name}: pointer {before} -> {after}, len {len(data)}')
                st = getattr(stack, 'deque', None)
                if st is not None:
                    n = len(st)
                    if n > m.max_items:
                        m.problem('more than max_items items', f'{n} > {m.max_items} after {name}')
        w.__name__ = fn.__name__
        w.__wrapped__ = fn
        return w

    for table in (F.opcodes, F.nopcodes):
        for code, (name, fn) in list(table.items()):
            table[code] = (name, wrap_op(name, fn))
    # instructions that call OP_EVAL / OP_CALL by module-global name must hit the wrapper too
    F.OP_EVAL = F.opcodes[45][1]
    F.OP_CALL = F.opcodes[42][1]
    for nm in list(F.opcodes_inverse):
        code, _ = F.opcodes_inverse[nm]
        F.opcodes_inverse[nm] = (code, F.opcodes[code][1])

    orig_run_tape = F.run_tape
    _orig['run_tape'] = orig_run_tape

    def run_tape(tape, stack, cache, additional_flags={}):
        m = Mon.active
        if m is not None and m.frames and m.frames[-1][0] in ('OP_CALL', 'OP_EVAL', 'OP_TAPROOT', 'OP_MERKLEVAL'):
            # a CALL / EVAL that really enters its body: one more nesting level
            m.depth += 1
            if m.depth > m.max_depth:
                m.max_depth = m.depth
            if m.depth > m.limit:
                m.problem('CALL/EVAL nesting deeper than the call-stack limit', f'{m.depth} > {m.limit}')
            try:
                return orig_run_tape(tape, stack, cache, additional_flags)
            finally:
                m.depth -= 1
        if m is not None and not m.frames:
            m.top_caches.append(cache)
        if m is not None and m.frames:
            fr = m.frames[-1]
            if fr[0] == 'OP_LOOP':
                fr[1] += 1
                if fr[1] > m.max_loop_iters:
                    m.max_loop_iters = fr[1]
                if fr[1] > m.limit:
                    m.problem('loop body ran more often than the call-stack limit', f'{fr[1]} > {m.limit}')
        return orig_run_tape(tape, stack, cache, additional_flags)

    F.run_tape = run_tape
    _installed = True


def run_monitored(script, limits, cache=None, contracts=None, plugins=None, flags=None, horizon=200000, stack_items=()):
    """run one script through run_tape with instrumented containers.
    returns (mon, exception or None, stack list, cache)"""
    install()
    mon = Mon(limits, horizon)
    tape = C.Tape(script, callstack_limit=limits[2])
    try:
        stack = MonStack(max_items=limits[0], max_item_size=limits[1])
    except BaseException as e:
        return mon, e, None, None
    rc = RecCache({'timestamp': int(env.Clock.now), **(cache or {})})
    tape.contracts = dict(contracts or {})
    tape.plugins = {**F._plugins, **(plugins or {})}
    exc = None
    Mon.active = mon
    try:
        for it in stack_items:
            stack.put(it)
        F.run_tape(tape, stack, rc, additional_flags=dict(flags or {}))
    except BaseException as e:
        if isinstance(e, (KeyboardInterrupt, SystemExit)):
            Mon.active = None
            raise
        exc = e
    finally:
        Mon.active = None
    return mon, exc, list(stack.deque), rc


def run_monitored_auth(scripts, limits, cache=None, horizon=200000, contracts=None):
    """run_auth_scripts under the step monitor (wrappers on the op tables / run_tape / Tape.read; the VM makes
    its own Stack, so only instruction-level observations are available). returns (mon, verdict or exception)"""
    install()
    mon = Mon(limits, horizon)
    Mon.active = mon
    try:
        v = F.run_auth_scripts(list(scripts), dict(cache or {}), dict(contracts or {}), stack_max_items=limits[0],
                               stack_max_item_size=limits[1], callstack_limit=limits[2])
    except BaseException as e:
        if isinstance(e, (KeyboardInterrupt, SystemExit)):
            Mon.active = None
            raise
        v = e
    finally:
        Mon.active = None
    return mon, v
