"""STEP space: the single-instruction transition relation on a bounded state set.

A case is (script bytes, configuration id): the script is a prefix of pushes that builds
the stack state followed by exactly one instruction under test.
"""
import hashlib
import itertools
import struct  # only used to build float operand *inputs*, never as an oracle

from mc import env
from ref import refed
from ref.optable import OP, NAME, op, push

# ---------------------------------------------------------------- contract stubs (pure, shared by both sides)


class AbiStub:
    def abi(self, args):
        if not args:
            return None
        if args[0] == b'\x00':
            return []
        return [b'r' + bytes([len(args)]), args[-1]]


class BadAbiStub:
    def abi(self, args):
        return 'not-a-list'


class TransferStub:
    def verify_txn_proof(self, proof):
        return proof[:1] != b'\x00'

    def verify_transfer(self, proof, source, destination):
        return proof[:1] == source[:1]

    def verify_txn_constraint(self, proof, constraint):
        return proof[-1:] != constraint[-1:]

    def calc_txn_aggregates(self, proofs, scope=None):
        return {scope: sum(p[-1] for p in proofs if p)}


CONTRACTS = {b'c1': AbiStub(), b'c2': TransferStub(), b'c3': BadAbiStub()}


def keys(seed):
    ks = [env.sym(seed, 'step.K%d' % i) for i in range(2)]
    return ks, [refed.public_key(k) for k in ks]


def ro_values(seed):
    return {
        'sigfield1': env.sym(seed, 'step.f1', 5), 'sigfield2': env.sym(seed, 'step.f2', 3), 'sigfield8': b'\x08',
        'timestamp': 1_700_000_000,
        'vi': 5, 'vneg': -129, 'vf': 1.5, 'vs': 'sté', 'vb': b'\x01\x02', 'vl': [1, b'\x02', 'x'], 'vt': (b'a', b'b'),
    }


_CFG = {}


def config(cfg, seed):
    key = (cfg, seed)
    if key not in _CFG:
        ro = ro_values(seed)
        if cfg == 0:
            _CFG[key] = (ro, {b'k': [b'\x01', b'\x02'], b'P': [b'\x03'], b'': [b'\x04'], b'tu': (b'\x05', b'\x06\x07')}, None, (1024, 1024, 128), CONTRACTS)
        elif cfg == 1:
            _CFG[key] = (ro, {}, None, (4, 8, 128), CONTRACTS)
        elif cfg == 2:
            _CFG[key] = (ro, {b'k': []}, None, (1024, 70, 2), {})
        else:
            raise KeyError(cfg)
    return _CFG[key]


def f32(x):
    return struct.pack('!f', x)


def items(tier, seed):
    ks, pks = keys(seed)
    ro = ro_values(seed)
    m0 = ro['sigfield1'] + ro['sigfield2'] + ro['sigfield8']
    sig0 = refed.sign(ks[0], m0)
    base = [b'', b'\x00', b'\x01', b'\x02', b'\x7f', b'\x80', b'\xff', b'\x00\x80', b'\xff\x7f',
            f32(1.0), f32(-1.5), b'\x7f\xc0\x00\x00', b'\xc3\xa9', b'\xc3\x28', pks[0], sig0]
    if tier == 'quick':
        return base
    sig1 = refed.sign(ks[0], ro['sigfield2'] + ro['sigfield8']) + b'\x01'
    more = [b'\x03', b'\x80\x00', b'\x00\xff', b'\xff\x00', b'\x00\x00', b'\x7f\xff', b'\x7f\xff\xff\xff', b'\x80\x00\x00\x00',
            (2 ** 63 - 1).to_bytes(8, 'big'), (1 << 63).to_bytes(8, 'big'), b'\x00\x00\x00\x00', b'\x00\x00\x00\x01',
            b'\x7f\x7f\xff\xff', b'\xff\x80\x00\x00', b'\x7f\x80\x00\x00', b'abc', ks[0], pks[1], sig1,
            b'\x01' + b'\x00' * 31, b'\xee' * 32, (1).to_bytes(32, 'little'), b'k', b'c1']
    return base + more


# ---------------------------------------------------------------- operand sets
U8 = [0, 1, 2, 3, 255]
KEYS_LV = [b'', b'k', b'P', b'zz', b'timestamp', b'tu']
VALKEYS = [b'timestamp', b'vi', b'vneg', b'vf', b'vs', b'vb', b'vl', b'vt', b'sigfield1', b'nope', b'\xff\xfe', b'']
FLAGKEYS = [b'\x00', b'\x01', b'\x09', b'\x0a', b'\x0b', b'ts_threshold', b'', b'\x00\x01', b'\xff']
DIVS = [b'\x00', b'\x01', b'\xff', b'\x02', b'\xfe', b'\x03', b'\x7f', b'\x00\x80', b'\x00\x02', b'']
FLOATS = [f32(1.0), f32(-2.0), f32(0.0), f32(float('inf')), b'\x7f\xc0\x00\x00', f32(0.1)]
BODIES = [b'', b'\x01', b'\x00', b'\x30', b'\x00\x20', b'\x02']


def lv(b):
    return bytes([len(b)]) + b


def blk(b):
    return len(b).to_bytes(2, 'big') + b


def operands(name):
    """list of operand byte strings for the instruction (complete boundary set for its operand kind)"""
    if name in ('PUSH0',):
        return [bytes([x]) for x in (0, 1, 0x7f, 0x80, 0xff)]
    if name == 'PUSH1':
        return [lv(b'')] + [lv(b'\x00'), lv(b'\x01\x02'), lv(b'\xaa' * 9), lv(b'\xbb' * 255)]
    if name == 'PUSH2':
        return [b'\x00\x00', b'\x00\x01\x07', b'\x01\x2c' + b'\xcc' * 300, b'\x04\x00' + b'\xdd' * 1024, b'\x04\x01' + b'\xdd' * 1025]
    if name in ('GET_MESSAGE', 'SIGN', 'CHECK_SIG', 'CHECK_SIG_VERIFY', 'CHECK_TEMPLATE', 'CHECK_TEMPLATE_VERIFY', 'TAPROOT'):
        return [bytes([x]) for x in (0, 1, 2, 0x80, 0x83, 0xff)]
    if name in ('POP1', 'ADD_INTS', 'SUBTRACT_INTS', 'MULT_INTS', 'ADD_FLOATS', 'SUBTRACT_FLOATS', 'ADD_POINTS', 'COPY',
                'REVERSE', 'ADD_SCALARS', 'SUBTRACT_SCALARS', 'SUBTRACT_POINTS', 'CALL'):
        return [bytes([x]) for x in U8]
    if name == 'SHAKE256':
        return [bytes([x]) for x in (0, 1, 20, 32, 255)]
    if name == 'CLAMP_SCALAR':
        return [b'\x00', b'\x01', b'\xff']
    if name == 'WRITE_CACHE':
        return [lv(k) + bytes([c]) for k in (b'k', b'', b'P', b'timestamp') for c in (0, 1, 2, 255)]
    if name in ('READ_CACHE', 'READ_CACHE_SIZE'):
        return [lv(k) for k in KEYS_LV]
    if name == 'GET_VALUE':
        return [lv(k) for k in VALKEYS]
    if name in ('SET_FLAG', 'UNSET_FLAG'):
        return [lv(k) for k in FLAGKEYS]
    if name in ('DIV_INT', 'MOD_INT'):
        return [lv(k) for k in DIVS]
    if name in ('DIV_FLOAT', 'MOD_FLOAT'):
        return list(FLOATS)
    if name == 'SWAP':
        return [bytes([i, j]) for i in (0, 1, 2, 255) for j in (0, 1, 2, 255)]
    if name in ('CHECK_MULTISIG', 'CHECK_MULTISIG_VERIFY'):
        return [bytes(t) for t in ((0, 0, 0), (0, 1, 1), (0, 1, 2), (0, 2, 1), (1, 1, 1), (0, 0, 1))]
    if name == 'MERKLEVAL':
        a = hashlib.sha256(hashlib.sha256(b'\x01').digest()).digest()
        b = hashlib.sha256(b'\x02').digest()
        root = bytes(x ^ y for x, y in zip(a, b))
        return [root, b'\x00' * 32]
    if name == 'DEF':
        return [bytes([h]) + blk(b) for h in (0, 255) for b in BODIES[:4]]
    if name in ('IF', 'LOOP'):
        return [blk(b) for b in BODIES]
    if name in ('IF_ELSE', 'TRY_EXCEPT'):
        return [blk(a) + blk(b) for a in BODIES[:5] for b in (b'', b'\x01', b'\x30')]
    return [b'']


ARITY = {n: 0 for n in ('FALSE', 'TRUE', 'PUSH0', 'PUSH1', 'PUSH2', 'GET_MESSAGE', 'READ_CACHE', 'READ_CACHE_SIZE', 'DEF', 'CALL',
                        'RETURN', 'SET_FLAG', 'UNSET_FLAG', 'DEPTH', 'GET_VALUE', 'TRY_EXCEPT')}
ARITY.update({n: 1 for n in ('POP0', 'SIZE', 'READ_CACHE_STACK', 'READ_CACHE_STACK_SIZE', 'DIV_INT', 'MOD_INT', 'DIV_FLOAT', 'MOD_FLOAT',
                             'DUP', 'SHA256', 'SHAKE256', 'VERIFY', 'CHECK_TIMESTAMP', 'CHECK_TIMESTAMP_VERIFY', 'CHECK_EPOCH',
                             'CHECK_EPOCH_VERIFY', 'IF', 'IF_ELSE', 'EVAL', 'NOT', 'RANDOM', 'INT_TO_FLOAT', 'FLOAT_TO_INT', 'LOOP',
                             'SIGN', 'DERIVE_SCALAR', 'CLAMP_SCALAR', 'DERIVE_POINT', 'COPY')})


def arity(name):
    return ARITY.get(name, 3)


def last_op_name(code):
    """name of the instruction under test (the script is pushes followed by one instruction)"""
    pc = 0
    n = len(code)
    last = None
    while pc < n:
        c = code[pc]
        last = c
        if c == 2:
            pc += 2
        elif c == 3 and pc + 1 < n:
            nxt = pc + 2 + code[pc + 1]
            if nxt >= n:
                break
            pc = nxt
        elif c == 4 and pc + 2 < n:
            nxt = pc + 3 + int.from_bytes(code[pc + 1:pc + 3], 'big')
            if nxt >= n:
                break
            pc = nxt
        else:
            break
    return NAME.get(last, 'NOP%d' % last) if last is not None else 'EMPTY'


def P(b):
    return push(b) if len(b) else b'\x03\x00'


NOP_CODES = (92, 93, 127, 128, 200, 255)


def cases(tier, seed, shard, nshards):
    """sharded on (opcode, operand) pairs: a shard only expands its own pairs"""
    its = items(tier, seed)
    pushes = [P(b) for b in its]
    cfgs = (0, 1) if tier == 'quick' else (0, 1, 2)
    pairs = []
    for opc in list(range(92)) + list(NOP_CODES):
        name = NAME.get(opc)
        if name is None:
            for x in (0, 1, 2, 3, 127, 128, 255):
                pairs.append((opc, bytes([x]), 3))
        else:
            for operand in operands(name):
                pairs.append((opc, operand, arity(name)))
    # biggest first so that striding balances the load
    pairs.sort(key=lambda t: -t[2])
    for idx in range(shard, len(pairs), nshards):
        opc, operand, ar = pairs[idx]
        maxd = min(ar + 1, 3)
        tailb = bytes([opc]) + operand
        for d in range(0, maxd + 1):
            for combo in itertools.product(range(len(its)), repeat=d):
                pre = b''.join(pushes[k] for k in combo)
                for cfg in cfgs:
                    yield (pre + tailb, cfg)
    # every byte-prefix of every instruction encoding (truncated operands), on a two item stack
    i = 0
    for opc in range(256):
        name = NAME.get(opc)
        ops_ = operands(name) if name else [b'\x01']
        for operand in ops_:
            full = bytes([opc]) + operand
            for cut in range(1, len(full)):
                if i % nshards == shard:
                    yield (pushes[2] + pushes[6] + full[:cut], 0)
                i += 1


# ---------------------------------------------------------------- typed cases for multi-operand instructions
def typed_cases(tier, seed, shard, nshards):
    i = 0
    for c in _typed(tier, seed):
        if i % nshards == shard:
            yield c
        i += 1


def refasm_int(n):
    ln = (n.bit_length() + 8) // 8 if n >= 0 else ((-n - 1).bit_length() + 8) // 8
    return n.to_bytes(max(ln, 1), 'big', signed=True)


def _typed(tier, seed):
    ks, pks = keys(seed)
    ro = ro_values(seed)
    f1, f2, f8 = ro['sigfield1'], ro['sigfield2'], ro['sigfield8']
    m0 = f1 + f2 + f8
    sig_k0 = refed.sign(ks[0], m0)
    sig_k1 = refed.sign(ks[1], m0)
    sig_k0_f1 = refed.sign(ks[0], f2 + f8) + b'\x01'
    badsig = bytes([sig_k0[0] ^ 1]) + sig_k0[1:]
    sigs = [sig_k0, sig_k1, sig_k0_f1, badsig, sig_k0 + b'\x00', sig_k0[:63], b'']
    keyset = [pks[0], pks[1], pks[0][:31], b'\x01' + b'\x00' * 31, b'\xee' * 32]
    # equality of items that differ in exactly one byte, at every position of items of 1..33 bytes (and in length only)
    for ln in (1, 7, 8, 9, 15, 16, 17, 26, 32, 33):
        base = bytes((7 * i + 3) & 0xff for i in range(ln))
        for name in ('EQUAL', 'EQUAL_VERIFY'):
            yield (P(base) + P(base) + op(name), 0)
            yield (P(base) + P(base + b'\x00') + op(name), 0)
            yield (P(b'\x00' + base) + P(base) + op(name), 0)
            for pos in range(ln):
                other = base[:pos] + bytes([base[pos] ^ 0x01]) + base[pos + 1:]
                yield (P(base) + P(other) + op(name), 0)
    # lengths and counts on both sides of every width boundary of the signed encoding (128 needs two bytes), alone and consumed
    for n in (0, 1, 2, 126, 127, 128, 129, 130, 200, 254, 255, 256, 257, 511, 512, 1000, 1023, 1024):
        item = bytes((5 * i + 1) & 0xff for i in range(n))
        for tail in (b'', P(b'\x01') + op('ADD_INTS') + b'\x02', P(b'\x64') + op('LESS'), op('DUP') + op('SIZE')):
            yield (P(item) + op('SIZE') + tail, 0)
        if n <= 1000:
            yield (op('TRUE') * n + op('DEPTH'), 0)
            yield (op('TRUE') * n + op('DEPTH') + P(b'\x01') + op('ADD_INTS') + b'\x02', 0)
        if 2 <= n <= 1000:
            yield (P(item) + P(refasm_int(n // 2)) + op('SPLIT') + op('SIZE'), 0)
            yield (P(item) + P(refasm_int(n - 1)) + op('SPLIT') + op('POP0') + op('SIZE'), 0)
    # string instructions on multi-byte UTF-8 text (character count != byte count), every index up to the byte length + 1
    for text in ('\u00e9', 'h\u00e9llo', '\u65e5\u672c\u8a9e', 'a\U0001f600b', ''):
        tb = text.encode('utf-8')
        for idx in list(range(0, len(tb) + 2)) + [-1, 255, 256]:
            ib = idx.to_bytes(2, 'big', signed=True) if not -128 <= idx < 128 else idx.to_bytes(1, 'big', signed=True)
            yield (P(tb) + P(ib) + op('SPLIT_STR'), 0)
            yield (P(tb) + P(ib) + op('SPLIT'), 0)
        for other in ('\u00fc', 'z', ''):
            yield (P(tb) + P(other.encode('utf-8')) + op('CONCAT_STR'), 0)
            yield (P(other.encode('utf-8')) + P(tb) + op('CONCAT_STR'), 0)
    for bad in (b'\xc3', b'\xff\xfe', b'\xe6\x97'):          # not UTF-8
        yield (P(bad) + P(b'\x01') + op('SPLIT_STR'), 0)
        yield (P(bad) + P(b'a') + op('CONCAT_STR'), 0)
    # CHECK_SIG / _VERIFY
    for name in ('CHECK_SIG', 'CHECK_SIG_VERIFY'):
        for s in sigs:
            for k in keyset:
                for allowed in (0, 1, 0xff):
                    yield (P(s) + P(k) + op(name) + bytes([allowed]), 0)
    # CHECK_SIG_STACK / SIGN_STACK
    for s in (sig_k0, badsig, sig_k0[:63], sig_k0 + b'\x00'):
        for m in (m0, m0 + b'x', b''):
            for k in keyset:
                yield (P(s) + P(m) + P(k) + op('CHECK_SIG_STACK'), 0)
    for m in (m0, b'', b'\x00' * 300):
        for sd in (ks[0], ks[1], ks[0][:31], b''):
            yield (P(m) + P(sd) + op('SIGN_STACK'), 0)
    # multisig
    for m_, n_ in ((1, 2), (2, 2), (2, 3), (1, 1), (3, 2)):
        pool = [sig_k0, sig_k1, sig_k0_f1, badsig]
        for sg in itertools.product(pool, repeat=m_):
            for kk in itertools.permutations([pks[0], pks[1], refed.public_key(env.sym(seed, 'step.K2'))][:max(n_, 2)], n_) \
                    if n_ <= 3 else ():
                for allowed in (0, 1):
                    for name in ('CHECK_MULTISIG', 'CHECK_MULTISIG_VERIFY'):
                        yield (b''.join(P(x) for x in sg) + b''.join(P(x) for x in kk) + op(name) + bytes([allowed, m_, n_]), 0)
    # scalars / points
    one = (1).to_bytes(32, 'little')
    two = (2).to_bytes(32, 'little')
    Lm1 = (refed.L - 1).to_bytes(32, 'little')
    big = b'\xff' * 32
    scal = [one, two, Lm1, big, ks[0], one[:31], b'']
    for a in scal:
        for b in scal:
            for name in ('ADD_SCALARS', 'SUBTRACT_SCALARS'):
                yield (P(a) + P(b) + op(name) + b'\x02', 0)
        yield (P(a) + op('DERIVE_POINT'), 0)
        yield (P(a) + op('DERIVE_SCALAR'), 0)
        for ik in (0, 1):
            yield (P(a) + op('CLAMP_SCALAR') + bytes([ik]), 0)
    G2 = refed.base_mul_enc(2)
    pts = [pks[0], pks[1], G2, refed.base_mul_enc(1), b'\x01' + b'\x00' * 31, b'\xee' * 32, pks[0][:31],
           bytes(pks[0][:31]) + bytes([pks[0][31] ^ 0x80])]
    for a in pts:
        for b in pts:
            for name in ('ADD_POINTS', 'SUBTRACT_POINTS'):
                yield (P(a) + P(b) + op(name) + b'\x02', 0)
    for a, b, c in itertools.product(pts[:4], repeat=3):
        yield (P(a) + P(b) + P(c) + op('ADD_POINTS') + b'\x03', 0)
        yield (P(a) + P(b) + P(c) + op('SUBTRACT_POINTS') + b'\x03', 0)
    # adapter ops: outputs of the makers are undetermined (nonce choice); inputs typed
    for sd in (ks[0], b'', ks[0][:31]):
        for m in (m0, b''):
            for T in (G2, b'\xee' * 32, pks[0][:31]):
                yield (P(sd) + P(m) + P(T) + op('MAKE_ADAPTER_SIG_PUBLIC'), 0)
            for t in (two, big, one[:31]):
                yield (P(m) + P(t) + P(sd) + op('MAKE_ADAPTER_SIG_PRIVATE'), 0)
    for sa in (one, Lm1, one[:31]):
        for R in (G2, b'\xee' * 32):
            for t in (two, big, one[:31]):
                yield (P(sa) + P(R) + P(t) + op('DECRYPT_ADAPTER_SIG'), 0)
            for m in (m0, b''):
                for T in (pks[1], b'\xee' * 32):
                    for X in (pks[0], b'\x01' + b'\x00' * 31):
                        yield (P(sa) + P(R) + P(m) + P(T) + P(X) + op('CHECK_ADAPTER_SIG'), 0)
    # INVOKE
    for cid in (b'c1', b'c2', b'c3', b'zz'):
        for argc in (b'\x00', b'\x01', b'\x02', b'\x03', b'\xff', b''):
            for args in ((), (b'\x00',), (b'a', b'bb'), (b'\x00', b'x', b'y')):
                yield (b''.join(P(a) for a in args) + P(argc) + P(cid) + op('INVOKE'), 0)
    # CHECK_TRANSFER: contract stub answers all combinations through the proof/source bytes
    for cid in (b'c2', b'c1', b'zz'):
        for amount in (b'\x00', b'\x05', b'\x06', b'\x07', b'\xff'):
            for constraint in (b'', b'\x09', b'\x03'):
                for count in (b'\x00', b'\x01', b'\x02', b'\x03'):
                    for proofs in ((b'\x01\x03', b'\x02\x03'), (b'\x00\x03', b'\x02\x03'), (b'\x01\x03', b'\x07\x03')):
                        srcs = (b'\x01s', b'\x02s')
                        yield (b''.join(P(x) for x in proofs) + b''.join(P(x) for x in srcs) + P(count) + P(b'dest') + P(constraint)
                               + P(amount) + P(cid) + op('CHECK_TRANSFER'), 0)
    # CHECK_TEMPLATE(_VERIFY): templates for flagged fields, ascending field order pulled from the top
    for name in ('CHECK_TEMPLATE', 'CHECK_TEMPLATE_VERIFY'):
        for flag in (0, 1, 2, 3, 0x80, 0x83, 4):
            for t1 in (f1, f1 + b'x'):
                for t2 in (f2, b''):
                    for t8 in (f8, b'\x09'):
                        yield (P(t8) + P(t2) + P(t1) + op(name) + bytes([flag]), 0)
    # TAPROOT
    script = b'\x02\x2a'
    import hashlib as _h
    tw = refed.clamp_scalar(_h.sha256(pks[0] + _h.sha256(script).digest()).digest())
    root = refed.add_enc(refed.scalarmult_base_noclamp(tw), pks[0])
    for rt in (root, pks[1], root[:31]):
        for second in (pks[0], pks[1], sig_k0, sig_k0_f1, b''):
            for third in (script, b'\x01', b''):
                for allowed in (0, 1):
                    yield (P(third) + P(second) + P(rt) + op('TAPROOT') + bytes([allowed]), 0)
    # MERKLEVAL
    a = _h.sha256(_h.sha256(b'\x01').digest()).digest()
    b = _h.sha256(b'\x02').digest()
    mroot = bytes(x ^ y for x, y in zip(a, b))
    for sib in (b'\x02', b'\x03', b''):
        for sc in (b'\x01', b'\x00', b''):
            for rt in (mroot, b'\x00' * 32):
                yield (P(sib) + P(sc) + op('MERKLEVAL') + rt, 0)
                yield (P(sc) + P(sib) + op('MERKLEVAL') + rt, 0)
    # time ops on typed constraints
    for c in (b'\x00', b'\x65\x4b\xa2\x80', b'\x65\x53\xf1\x00', b'\x65\x53\xf1\x01', b'\x00\x65\x53\xf1\x00', b'\xff' * 9, b''):
        for name in ('CHECK_TIMESTAMP', 'CHECK_TIMESTAMP_VERIFY', 'CHECK_EPOCH', 'CHECK_EPOCH_VERIFY'):
            yield (P(c) + op(name), 0)
