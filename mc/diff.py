"""Differential execution: the real VM against the reference interpreter on the same bytes,
the same environment answers (clock, randomness, contract stubs) and the same configuration."""
import hashlib

from mc import env
from ref import refvm

F = env.functions
RAND_SEED = b'diff'


def ref_rand_source():
    state = {'n': 0}

    def rand(n):
        state['n'] += 1
        return hashlib.shake_256(RAND_SEED + state['n'].to_bytes(8, 'big')).digest(n)
    return rand


class Result:
    __slots__ = ('verdict', 'detail', 'impl', 'ref', 'why')

    def __init__(self, verdict, detail='', impl=None, ref=None, why=''):
        self.verdict, self.detail, self.impl, self.ref, self.why = verdict, detail, impl, ref, why


def run_impl(script, ro, cache0, flags, limits, contracts, plugins=None):
    env.Rand.reset(RAND_SEED)
    cv = dict(ro or {})
    for k, v in (cache0 or {}).items():
        cv[k] = list(v) if type(v) is list else v      # a tuple-valued entry stays a tuple (immutable; the VM must take both)
    try:
        tape, stack, cache = F.run_script(
            script, cv, contracts=dict(contracts or {}), additional_flags=dict(flags or {}),
            plugins=dict(plugins or {}),
            stack_max_items=limits[0], stack_max_item_size=limits[1], callstack_limit=limits[2])
        return None, stack.list(), cache
    except BaseException as e:
        if isinstance(e, (KeyboardInterrupt, SystemExit, MemoryError)):
            raise
        return e, None, None


def run_ref(scripts, ro, cache0, flags, limits, contracts, now, loop_return='break', ct_plugins=None):
    e = refvm.Env(now=now, max_items=limits[0], max_item_size=limits[1], limit=limits[2],
                  contracts=contracts, rand=ref_rand_source(), loop_return=loop_return, ct_plugins=ct_plugins)
    e.loop_ret_seen = False
    ro2 = dict(ro or {})
    ro2.setdefault('timestamp', int(now))
    c0 = {k: list(v) for k, v in (cache0 or {}).items()}
    try:
        return refvm.run_scripts(scripts, e, ro=ro2, cache=c0, flags=flags), e
    except refvm.Unspec as u:
        return ('unspec', str(u)), e
    except RecursionError:
        return ('unspec', 'reference recursion depth'), e


DEFAULT_LIMITS = (1024, 1024, 128)


def compare(script, ro=None, cache0=None, flags=None, limits=DEFAULT_LIMITS, contracts=None, now=None):
    """single script through run_script. Returns Result(verdict in agree|unspec|viol)"""
    if now is None:
        now = int(env.Clock.now)
    # reference first: it is bounded by its own step horizon, and where it leaves the behaviour open (Unspec) there is
    # nothing to compare - the implementation is not run (some such programs are legitimately exponential: binary
    # recursion under TRY handlers is bounded only by phi^callstack_limit steps)
    ref, e = run_ref([script], ro, cache0, flags, limits, contracts, now)
    if ref[0] == 'unspec':
        return Result('unspec', why=ref[1], impl=(None, None, None), ref=ref)
    impl = run_impl(script, ro, cache0, flags, limits, contracts)
    # RETURN inside a LOOP body ends the loop and execution continues after it (standing decision, DESIGN 2.4:
    # language_spec.md - "OP_RETURN ends only the local execution and returns to the outer context" - and the pinned
    # implementation agree on this for loop bodies; until round 5 "ends the whole script" was accepted as well)
    return judge(impl, ref)


def judge(impl, ref):
    r, st, cache = impl
    if ref[0] == 'unspec':
        return Result('unspec', why=ref[1], impl=impl, ref=ref)
    if ref[0] == 'error':
        if r is None:
            return Result('viol', f'reference: error({ref[1]}); implementation returned stack '
                                  f'{[x.hex()[:40] for x in st]}', impl, ref, 'missing error')
        return Result('agree', impl=impl, ref=ref, why='error')
    _, rstack, rcache = ref
    if r is not None:
        return Result('viol', f'reference: ok stack {[bytes(x).hex()[:40] for x in rstack]}; implementation raised {r!r}',
                      impl, ref, 'unexpected error')
    if not refvm.items_match(rstack, st):
        return Result('viol', f'stack differs: reference {[repr(x) if type(x) is refvm.Wild else bytes(x).hex()[:40] for x in rstack]} '
                              f'implementation {[x.hex()[:40] for x in st]}', impl, ref, 'stack')
    if not refvm.cache_match(rcache, cache):
        ik = {k: v for k, v in cache.items() if type(k) is bytes}
        return Result('viol', f'script-visible cache differs: reference {rcache!r} implementation {ik!r}', impl, ref, 'cache')
    return Result('agree', impl=impl, ref=ref, why='ok')


def ref_auth(scripts, ro=None, limits=DEFAULT_LIMITS, contracts=None, now=None, loop_return='break', cache0=None):
    """reference verdict of run_auth_scripts: True/False or ('unspec', why). Also returns env"""
    if now is None:
        now = int(env.Clock.now)
    ref, e = run_ref(scripts, ro, cache0, None, limits, contracts, now, loop_return=loop_return)
    if ref[0] == 'unspec':
        return ref, e
    if ref[0] == 'error':
        return False, e
    _, st, _ = ref
    if len(st) == 1 and type(st[0]) is refvm.Wild:
        return ('unspec', 'undetermined final item'), e
    return (len(st) == 1 and bytes(st[0]) == b'\xff'), e
