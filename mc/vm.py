"""Thin helpers around the real VM's public entry points."""
from mc import env

F = env.functions
SEE = env.errors.ScriptExecutionError


def run(script, cache=None, **kw):
    """run_script -> (exception or None, stack list or None, cache or None)"""
    try:
        tape, stack, c = F.run_script(script, dict(cache or {}), **kw)
        return None, stack.list(), c
    except BaseException as e:  # ScriptExecutionError derives from BaseException
        if isinstance(e, (KeyboardInterrupt, SystemExit, MemoryError)):
            raise
        return e, None, None


def auth(scripts, cache=None, **kw):
    return F.run_auth_scripts(list(scripts), dict(cache or {}), **kw)


TRUE, FALSE = b'\xff', b'\x00'
