"""Nondeterminism ownership and import of the implementation under test.

Must be imported before anything imports `tapescript`: functions.py / tools.py
bind `time.time` and `secrets.token_bytes` by name at import time, so both are
replaced here first. The package is imported from the working tree named by
TAPESCRIPT_SRC (default /repo), never from an installed copy.
"""
import hashlib
import os
import sys
import time as _time
import secrets as _secrets

SRC = os.environ.get('TAPESCRIPT_SRC', '/repo')
GUARD = 'TAPESCRIPT_VERIF'
os.environ.setdefault(GUARD, '1')

_real_time = _time.time


class Clock:
    """Virtual clock: every read of time.time() inside the package sees .now"""
    now = 1_700_000_000.0
    reads = 0

    @classmethod
    def set(cls, t):
        cls.now = t

    @classmethod
    def read(cls):
        cls.reads += 1
        return cls.now


class HugeAllocation(Exception):
    pass


class Rand:
    """Counter based deterministic stream replacing secrets.token_bytes."""
    CAP = 1 << 22
    seed = b'verif'
    counter = 0
    log = []

    @classmethod
    def reset(cls, seed=None):
        if seed is not None:
            cls.seed = seed if isinstance(seed, bytes) else str(seed).encode()
        cls.counter = 0
        cls.log = []

    @classmethod
    def token_bytes(cls, n=32):
        # mirrors secrets.token_bytes argument handling for the cases the VM uses
        if n is None:
            n = 32
        if n < 0:
            raise ValueError('negative argument not allowed')
        cls.counter += 1
        cls.log.append(n)
        if n > cls.CAP:
            # the harness refuses to really allocate attacker-sized buffers; the request itself is
            # what C07 judges (Rand.log keeps the size)
            raise HugeAllocation(n)
        out = hashlib.shake_256(cls.seed + cls.counter.to_bytes(8, 'big')).digest(n)
        return out


def _fake_time():
    Clock.reads += 1
    return Clock.now


def _fake_token_bytes(n=32):
    return Rand.token_bytes(n)


_time.time = _fake_time
_secrets.token_bytes = _fake_token_bytes

if 'tapescript' in sys.modules:
    raise RuntimeError('tapescript imported before mc.env')
sys.path.insert(0, SRC)
import tapescript  # noqa: E402
from tapescript import functions, classes, parsing, tools, errors  # noqa: E402,F401

_loaded = os.path.dirname(os.path.abspath(tapescript.__file__))
if os.path.realpath(_loaded) != os.path.realpath(os.path.join(SRC, 'tapescript')):
    raise RuntimeError(f'tapescript loaded from {_loaded}, expected {SRC}')
if functions.time is not _fake_time or functions.token_bytes is not _fake_token_bytes \
        or tools.time is not _fake_time:
    raise RuntimeError('cannot attach: clock / randomness seams not bound')

real_time = _real_time


class CaseTimeout(BaseException):
    """per-case wall-clock backstop fired (see mc/run.py and DESIGN 11.3)"""


ABORT = [False]
_tape_read = classes.Tape.read


def _guarded_read(self, size, move_pointer=True):
    # OP_TRY_EXCEPT catches BaseException, so a timeout exception alone can be swallowed for ever by a script that
    # nests TRY inside exponential recursion; once the backstop fired, every tape read fails, which stops all progress
    if ABORT[0]:
        raise CaseTimeout()
    return _tape_read(self, size, move_pointer)


classes.Tape.read = _guarded_read


def sym(seed, name, n=32):
    """Concrete bytes for the abstract symbol `name` under VERIF_SEED `seed`."""
    return hashlib.shake_256(b'sym|%d|%s' % (seed, name.encode())).digest(n)
