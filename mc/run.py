"""Bounded-exhaustive driver: shards finite case spaces over worker processes,
collects coverage counters, applies the VIOLATION / KNOWN-FINDING protocol and
writes the evidence file.

A Block is a named finite space of cases plus a function that executes one case
on the real implementation and judges it.  `cases(shard, nshards)` must yield a
deterministic, duplicate-free partition of the space over shards.
"""
import collections
import itertools
import json
import multiprocessing as mp
import os
import signal
import subprocess
import sys
import time
import traceback

VERIF = os.path.dirname(os.path.dirname(os.path.abspath(__file__)))
OUT = os.environ.get('VERIF_OUT') or VERIF  # evidence/replay root (mutant runs redirect it)
NPROC = int(os.environ.get('VERIF_NPROC', min(16, os.cpu_count() or 1)))
MAX_VIOL_PER_SHARD = 40


# ---------------------------------------------------------------- json codec
def enc(o):
    if isinstance(o, (bytes, bytearray)):
        return {'$b': bytes(o).hex()}
    if isinstance(o, tuple):
        return {'$t': [enc(x) for x in o]}
    if isinstance(o, list):
        return [enc(x) for x in o]
    if isinstance(o, dict):
        if all(isinstance(k, str) for k in o):
            return {k: enc(v) for k, v in o.items()}
        return {'$d': [[enc(k), enc(v)] for k, v in o.items()]}
    if isinstance(o, (set, frozenset)):
        return {'$s': sorted((enc(x) for x in o), key=repr)}
    if isinstance(o, float):
        if o != o or o in (float('inf'), float('-inf')):
            return {'$f': repr(o)}
        return o
    if o is None or isinstance(o, (bool, int, str)):
        return o
    return {'$r': repr(o)}


def dec(o):
    if isinstance(o, list):
        return [dec(x) for x in o]
    if isinstance(o, dict):
        if len(o) == 1:
            (k, v), = o.items()
            if k == '$b':
                return bytes.fromhex(v)
            if k == '$t':
                return tuple(dec(x) for x in v)
            if k == '$d':
                return {dec(a): dec(b) for a, b in v}
            if k == '$s':
                return frozenset(dec(x) for x in v)
            if k == '$f':
                return float(v)
            if k == '$r':
                return v
        return {k: dec(v) for k, v in o.items()}
    return o


# ---------------------------------------------------------------- spaces
def sharded(factory):
    """Turn a zero-argument iterable factory into a cases(shard, n) function by
    striding (every worker regenerates the sequence; use for cheap generators)."""
    def cases(shard, nshards):
        return itertools.islice(factory(), shard, None, nshards)
    return cases


def sharded_first(first, rest_factory):
    """Shard on the first dimension: `first` is a list; rest_factory(x) yields
    the cases for first-dimension value x."""
    first = list(first)

    def cases(shard, nshards):
        for i in range(shard, len(first), nshards):
            yield from rest_factory(first[i])
    return cases


def _env():
    from mc import env
    return env


def _on_alarm(signum, frame):
    e = _env()
    e.ABORT[0] = True
    raise e.CaseTimeout()


class _CT:
    """lazy alias so that `except CaseTimeout` works before mc.env is imported"""


def _case_timeout():
    return _env().CaseTimeout


class Block:
    def __init__(self, name, cases, fn, note='', nshards=None, backstop=300):
        self.name = name
        self.cases = cases if callable(cases) else sharded(lambda c=cases: iter(c))
        self.fn = fn
        self.note = note
        self.nshards = nshards
        self.backstop = backstop      # seconds one case may take before it is reported as not finishing (None: unlimited)


# ---------------------------------------------------------------- per-shard context
class Ctx:
    def __init__(self, pid, tier, seed, block=None):
        self.pid, self.tier, self.seed = pid, tier, seed
        self.block = block
        self.evaluations = 0
        self.executions = 0
        self.transitions = 0
        self.states = set()
        self.outcomes = collections.Counter()
        self.counters = collections.Counter()
        self.unspecified = 0
        self.violations = []
        self.nviol = 0
        self.samples = []
        self.case = None

    # coverage bookkeeping -------------------------------------------------
    def state(self, key):
        self.states.add(hash(key))

    def trans(self, n=1):
        self.transitions += n

    def ran(self, n=1):
        self.executions += n

    def outcome(self, label):
        self.outcomes[label] += 1

    def count(self, label, n=1):
        self.counters[label] += n

    def unspec(self, why=''):
        self.unspecified += 1
        if why:
            self.counters['unspecified:' + why] += 1

    def sample(self, obj):
        if len(self.samples) < 4:
            self.samples.append(enc(obj))

    def violation(self, sig, detail, case=None):
        """sig: small dict naming construct / clause (used to match known findings)."""
        self.nviol += 1
        sig = {'property': self.pid, **sig}
        key = json.dumps(sig, sort_keys=True)
        self.counters['viol:' + key] += 1
        if len(self.violations) < MAX_VIOL_PER_SHARD and \
                sum(1 for v in self.violations if v['key'] == key) < 3:
            self.violations.append({
                'key': key, 'signature': sig, 'detail': str(detail)[:2000],
                'block': self.block, 'case': enc(self.case if case is None else case),
            })


_BLOCKS = None
_META = None


_CAPPED = [False]


def cap_memory():
    """Address-space cap for the processes that run the code under test (workers, replay) - not for the parent, which only merges
    results: an attacker-sized allocation in the code under test (e.g. a list pre-sized from a stack-supplied count) fails fast with
    MemoryError - which the checks judge - instead of filling the machine until the exploration times out without a verdict.
    Far above what any case needs itself."""
    if _CAPPED[0]:
        return
    _CAPPED[0] = True
    try:
        import resource
        cap = int(float(os.environ.get('VERIF_MEM_GB', '8')) * (1 << 30))
        soft, hard = resource.getrlimit(resource.RLIMIT_AS)
        if hard == resource.RLIM_INFINITY or cap <= hard:
            resource.setrlimit(resource.RLIMIT_AS, (cap, hard))
    except (ValueError, OSError):
        pass


def _run_shard(arg):
    cap_memory()
    bi, shard, nshards = arg
    pid, tier, seed = _META
    block = _BLOCKS[bi]
    ctx = Ctx(pid, tier, seed, block.name)
    signal.signal(signal.SIGPROF, _on_alarm)
    timeouts = 0
    try:
        for case in block.cases(shard, nshards):
            ctx.case = case
            ctx.evaluations += 1
            if ctx.evaluations <= 1 and shard == 0:
                ctx.samples.append(enc(case))
            try:
                if block.backstop:
                    # repeating timer: the VM's TRY blocks catch BaseException, so one shot could be swallowed
                    signal.setitimer(signal.ITIMER_PROF, block.backstop, 0.05)
                try:
                    block.fn(ctx, case)
                finally:
                    signal.setitimer(signal.ITIMER_PROF, 0)
                    if _env().ABORT[0]:
                        _env().ABORT[0] = False
                        raise _env().CaseTimeout()
            except _case_timeout():
                signal.setitimer(signal.ITIMER_PROF, 0)
                _env().ABORT[0] = False
                ctx.violation({'clause': 'case did not finish within the per-case backstop', 'block': block.name},
                              f'no result after {block.backstop}s (exponential work or a hang in the code under test)')
                timeouts += 1
                if timeouts >= 2:
                    # the verdict is in; spending the backstop on every further case of this shard would only turn a
                    # violation into a harness timeout
                    ctx.count('shard abandoned after 2 case timeouts')
                    break
            except HarnessError:
                raise
            except BaseException as e:  # the harness itself must not die on a case
                if isinstance(e, (KeyboardInterrupt, SystemExit)):
                    raise
                # an exception that a check did not expect and that was raised by the code under test (innermost frame inside
                # the tapescript package) is a verdict about that code - e.g. a builder that refuses a valid input - and is
                # reported as a violation; one raised by the harness's own code stays a harness error
                tb = traceback.extract_tb(e.__traceback__)
                src = os.path.realpath(getattr(_env(), 'SRC', '/repo'))
                if tb and os.path.realpath(tb[-1].filename).startswith(os.path.join(src, 'tapescript')):
                    ctx.violation({'clause': 'the library raised an exception the check does not provide for', 'block': block.name,
                                   'exc': type(e).__name__, 'where': tb[-1].name},
                                  f'{type(e).__name__}: {e} (raised in {os.path.basename(tb[-1].filename)}:{tb[-1].name})')
                    continue
                raise HarnessError(
                    f'harness exception in block {block.name} case {enc(case)!r}: '
                    + traceback.format_exc())
    except HarnessError as e:
        return ('harness-error', str(e))
    return ('ok', bi, ctx.evaluations, ctx.executions, ctx.transitions, ctx.states,
            ctx.outcomes, ctx.counters, ctx.unspecified, ctx.violations, ctx.nviol,
            ctx.samples)


class HarnessError(Exception):
    pass


# ---------------------------------------------------------------- known findings
def load_known():
    path = os.path.join(VERIF, 'known_findings.json')
    if not os.path.exists(path):
        return []
    with open(path) as f:
        return json.load(f).get('findings', [])


def match_known(sig, known):
    for k in known:
        if k.get('status') != 'known':
            continue
        ks = k.get('signature', {})
        if ks == sig:
            return k
    return None


# ---------------------------------------------------------------- main driver
def run_check(pid, tier, seed, blocks, level='model_checking', assumptions=(),
              bounds=None, rule='', states_meaning='', exhaustive=True, extra=None):
    """Run all blocks; write evidence; print protocol lines; return exit code."""
    global _BLOCKS, _META
    t0 = time.monotonic()
    _BLOCKS, _META = blocks, (pid, tier, seed)
    tasks = []
    for bi, b in enumerate(blocks):
        n = b.nshards or NPROC * 4
        tasks.extend((bi, s, n) for s in range(n))

    tot = Ctx(pid, tier, seed)
    per_block = collections.OrderedDict((b.name, collections.Counter()) for b in blocks)
    budget = float(os.environ.get('VERIF_TIMEOUT_S') or (1500 if tier == 'quick' else 6 * 3600))
    if NPROC > 1:
        ctxm = mp.get_context('fork')
        pool = ctxm.Pool(NPROC)
        try:
            ar = pool.map_async(_run_shard, tasks, chunksize=1)
            try:
                results = ar.get(timeout=budget)
            except mp.TimeoutError:
                pool.terminate()
                print(f'HARNESS-TIMEOUT property={pid}: exploration did not finish within {budget:.0f}s (a hang in the code under test '
                      f'or too large a bound); no verdict', file=sys.stderr)
                return 2
        finally:
            pool.terminate()
            pool.join()
    else:
        results = [_run_shard(t) for t in tasks]
    for r in results:
        if r[0] != 'ok':
            print(f'HARNESS-ERROR property={pid}: {r[1]}', file=sys.stderr)
            return 2
        (_, bi, ev, ex, tr, st, oc, cn, un, vi, nv, sm) = r
        tot.evaluations += ev
        tot.executions += ex
        tot.transitions += tr
        tot.states |= st
        tot.outcomes.update(oc)
        tot.counters.update(cn)
        tot.unspecified += un
        tot.violations.extend(vi)
        tot.nviol += nv
        pb = per_block[blocks[bi].name]
        pb['cases'] += ev
        pb['executions'] += ex
        pb['violations'] += nv
        for smp in sm[:3]:
            if len(tot.samples) < 16 and sum(1 for x in tot.samples if x['block'] == blocks[bi].name) < 3:
                tot.samples.append({'block': blocks[bi].name, 'case': smp})

    # --- triage violations into known findings / new violations
    known = load_known()
    by_key = collections.OrderedDict()
    for v in tot.violations:
        by_key.setdefault(v['key'], []).append(v)
    new_keys, known_hit = [], collections.OrderedDict()
    for key, vs in by_key.items():
        k = match_known(vs[0]['signature'], known)
        if k is not None:
            known_hit[key] = (k, vs)
        else:
            new_keys.append(key)
    # also count signature totals (counters hold all, even those not stored)
    exit_code = 0
    for key, (k, vs) in known_hit.items():
        n = tot.counters.get('viol:' + key, len(vs))
        print(f"KNOWN-FINDING: property={pid} {k.get('what', key)} [{n} cases]")
    rdir = os.path.join(OUT, 'replays', pid)
    if new_keys:
        os.makedirs(rdir, exist_ok=True)
        for n, key in enumerate(new_keys):
            v = by_key[key][0]
            path = os.path.join(rdir, f'{tier}-{n}.json')
            with open(path, 'w') as f:
                json.dump({'property': pid, 'tier': tier, 'seed': seed, 'block': v['block'],
                           'signature': v['signature'], 'detail': v['detail'],
                           'case': v['case'],
                           'count': tot.counters.get('viol:' + key, 1)}, f, indent=1)
            ok = confirm_replay(pid, path) if n < 3 else True
            if ok is False:
                # every source of nondeterminism is owned by the harness (virtual clock, counter-based random source,
                # fixed hash seed), so a violation that holds when its case runs alone in a fresh process depends on
                # state the code under test kept from earlier cases of the same worker (memo tables, module globals).
                # That is a violation of the property for that call history; it is reported as such, with the note.
                print(f'HISTORY-DEPENDENT property={pid} replay={path}: the case alone in a fresh process holds; the '
                      'violation needs the calls made by earlier cases in the same process', file=sys.stderr)
                print(f'VIOLATION property={pid} replay={path}')
                print(f'  signature={key}\n  detail=[history-dependent] {v["detail"][:600]}')
                exit_code = max(exit_code, 1)
                continue
            if n < 25:
                print(f'VIOLATION property={pid} replay={path}')
                print(f'  signature={key}\n  detail={v["detail"][:600]}')
            elif n == 25:
                print(f'VIOLATION property={pid} replay={path}  (+{len(new_keys) - 25} further signatures, see {rdir})')
            exit_code = 1 if exit_code == 0 else exit_code

    # --- evidence
    wall = time.monotonic() - t0
    unknown_viol = sum(tot.counters.get('viol:' + k, 1) for k in new_keys)
    cov = {
        'states': max(len(tot.states), 0),
        'transitions': tot.transitions,
        'traces_validated_against_impl': tot.executions,
        'evaluations': tot.evaluations,
        'distinct_outcomes': len(tot.outcomes),
        'outcomes': dict(tot.outcomes.most_common(40)),
        'unspecified_by_oracle': tot.unspecified,
        'exhaustive': bool(exhaustive),
        'rule': rule,
        'states_meaning': states_meaning,
        'bounds': bounds or {},
        'blocks': {k: dict(v) for k, v in per_block.items()},
        'counters': {k: v for k, v in sorted(tot.counters.items()) if not k.startswith('viol:')},
        'known_findings_reproduced': [known_hit[k][0].get('what', k) for k in known_hit],
        'samples': tot.samples[:16] or [{'note': 'no cases'}],
        'nproc': NPROC,
    }
    if extra:
        cov.update(extra)
    ev = {
        'property_id': pid, 'tier': tier, 'seed': seed, 'level': level,
        'coverage': cov, 'assumptions': list(assumptions), 'wall_s': round(wall, 2),
        'violations': unknown_viol,
    }
    os.makedirs(os.path.join(OUT, 'evidence'), exist_ok=True)
    with open(os.path.join(OUT, 'evidence', f'{pid}.json'), 'w') as f:
        json.dump(ev, f, indent=1, sort_keys=True)
        f.write('\n')
    print(f'{pid} tier={tier} seed={seed}: cases={tot.evaluations} impl_runs={tot.executions} '
          f'states={len(tot.states)} transitions={tot.transitions} '
          f'outcomes={len(tot.outcomes)} unspecified={tot.unspecified} '
          f'known={len(known_hit)} new_violations={len(new_keys)} wall={wall:.1f}s')
    return exit_code


def confirm_replay(pid, path):
    """Re-run a violating case in a fresh process; True if it fails again."""
    try:
        p = subprocess.run([os.path.join(VERIF, 'check'), pid, '--replay', path],
                           capture_output=True, text=True, timeout=600)
    except subprocess.TimeoutExpired:
        return True
    if p.returncode == 1:
        return True
    if p.returncode == 0:
        return False
    sys.stderr.write(p.stdout[-2000:] + p.stderr[-2000:])
    return None


def replay(pid, path, blocks_for):
    with open(path) as f:
        r = json.load(f)
    tier, seed = r.get('tier', 'quick'), r.get('seed', 0)
    blocks = blocks_for(tier, seed)
    blk = next((b for b in blocks if b.name == r['block']), None)
    if blk is None:
        print(f'unknown block {r["block"]}', file=sys.stderr)
        return 2
    ctx = Ctx(pid, tier, seed, blk.name)
    ctx.case = dec(r['case'])
    cap_memory()
    signal.signal(signal.SIGPROF, _on_alarm)
    try:
        if blk.backstop:
            signal.setitimer(signal.ITIMER_PROF, blk.backstop, 0.05)
        try:
            blk.fn(ctx, ctx.case)
        finally:
            signal.setitimer(signal.ITIMER_PROF, 0)
            if _env().ABORT[0]:
                _env().ABORT[0] = False
                raise _env().CaseTimeout()
    except _case_timeout():
        signal.setitimer(signal.ITIMER_PROF, 0)
        _env().ABORT[0] = False
        ctx.violation({'clause': 'case did not finish within the per-case backstop', 'block': blk.name}, f'no result after {blk.backstop}s')
    if ctx.nviol:
        for v in ctx.violations:
            print(f'VIOLATION property={pid} replay={path}')
            print('  signature=' + v['key'])
            print('  detail=' + v['detail'])
        return 1
    print(f'{pid}: replay of {path} holds (no violation)')
    return 0
