"""E2 - explicit-state breadth-first explorer.

A transition is a call of the real API on the real (process-global) objects; a state is a
snapshot of those objects from which they can be restored in place; states are de-duplicated by
a canonical key.  The caller supplies the abstraction / model and the invariants.
"""
import collections


class Explorer:
    def __init__(self, snapshot, restore, canon, operations, apply_op, on_state=None, on_edge=None, max_depth=None,
                 max_states=None):
        self.snapshot, self.restore, self.canon = snapshot, restore, canon
        self.operations, self.apply_op = operations, apply_op
        self.on_state, self.on_edge = on_state, on_edge
        self.max_depth, self.max_states = max_depth, max_states
        self.states = 0
        self.transitions = 0
        self.depth_reached = 0
        self.capped = False
        self.fixpoint = False

    def run(self):
        s0 = self.snapshot()
        k0 = self.canon(s0)
        seen = {k0: ()}
        frontier = collections.deque([(s0, k0, ())])
        if self.on_state:
            self.restore(s0)
            self.on_state(s0, k0, ())
        self.states = 1
        while frontier:
            snap, key, hist = frontier.popleft()
            self.depth_reached = max(self.depth_reached, len(hist))
            if self.max_depth is not None and len(hist) >= self.max_depth:
                self.capped = True
                continue
            for op in self.operations:
                self.restore(snap)
                result = self.apply_op(op)
                nxt = self.snapshot()
                nk = self.canon(nxt)
                self.transitions += 1
                if self.on_edge:
                    self.on_edge(snap, key, op, result, nxt, nk, hist)
                if nk not in seen:
                    if self.max_states is not None and len(seen) >= self.max_states:
                        self.capped = True
                        continue
                    seen[nk] = hist + (op,)
                    self.states += 1
                    if self.on_state:
                        self.restore(nxt)
                        self.on_state(nxt, nk, hist + (op,))
                    frontier.append((nxt, nk, hist + (op,)))
        self.fixpoint = not self.capped
        self.restore(s0)
        return seen
