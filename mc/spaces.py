"""Shared finite program spaces.

CTRL: abstract control-flow programs (nested tuples) enumerated completely up to a node
bound and rendered to bytecode by a tiny assembler that is independent of the compiler.
STEP: single-instruction transitions from every state of a bounded state set.
"""
import functools
import itertools

from ref.optable import OP, op, push

# ------------------------------------------------------------------ CTRL
LEAVES_FULL = ('M', 'T', 'F', 'RETURN', 'FAIL', 'CALL0', 'CALL1', 'SETV', 'GETV')
ONE_FULL = ('IFT', 'IFF', 'LOOP1', 'LOOP2', 'DEF0', 'DEF1', 'EVAL')
TWO_FULL = ('IFELSE_T', 'IFELSE_F', 'TRY')
LEAVES_SKEL = ('M', 'RETURN', 'FAIL')
ONE_SKEL = ('IFT', 'LOOP1', 'FUNC', 'EVAL')
TWO_SKEL = ('IFELSE_T', 'IFELSE_F', 'TRY')


LEAVES_WIT = LEAVES_FULL + ('WE', 'WP', 'WRET', 'SPEND', 'DROP', 'EMPTY')


def _grammar(name):
    if name == 'full':
        return (LEAVES_FULL, ONE_FULL, TWO_FULL)
    if name == 'fork':     # full grammar + a forked instruction with count 0, 1, 2 (rendered by the caller)
        return (LEAVES_FULL + ('FORK0', 'FORK1', 'FORK2'), ONE_FULL, TWO_FULL)
    if name == 'wit':      # adversarial witness family: full grammar + cache writes, call-budget spending, stack drop
        return (LEAVES_WIT, ONE_FULL, TWO_FULL)
    if name == 'rec':      # data-bounded recursion: guarded self-call (budget in cache register r), failures, handlers
        return (('M', 'FAIL', 'RCALL0', 'RETURN'), ('DEF0', 'IFT', 'LOOP1', 'EVAL'), ('TRY',))
    return (LEAVES_SKEL, ONE_SKEL, TWO_SKEL)


@functools.lru_cache(maxsize=None)
def count_progs(n, grammar):
    """number of statement lists with exactly n nodes"""
    if n == 0:
        return 1
    return sum(count_stmts(k, grammar) * count_progs(n - k, grammar) for k in range(1, n + 1))


@functools.lru_cache(maxsize=None)
def count_stmts(n, grammar):
    L, O, T = _grammar(grammar)
    if n == 1:
        return len(L) + len(O) + len(T)      # constructs with empty bodies
    c = len(O) * count_progs(n - 1, grammar)
    c += len(T) * sum(count_progs(a, grammar) * count_progs(n - 1 - a, grammar) for a in range(n))
    return c


def gen_progs(n, grammar):
    """all statement lists (tuples) with exactly n nodes, deterministic order (simplest first)"""
    if n == 0:
        yield ()
        return
    for k in range(1, n + 1):
        for s in gen_stmts(k, grammar):
            for rest in gen_progs(n - k, grammar):
                yield (s,) + rest


def gen_stmts(n, grammar):
    L, O, T = _grammar(grammar)
    if n == 1:
        for l in L:
            yield (l,)
    for o in O:
        for b in gen_progs(n - 1, grammar):
            yield (o, b)
    for t in T:
        for a in range(n):
            for b1 in gen_progs(a, grammar):
                for b2 in gen_progs(n - 1 - a, grammar):
                    yield (t, b1, b2)


def unrank_prog(n, i, grammar):
    """the i-th statement list with exactly n nodes in gen_progs order"""
    if n == 0:
        return ()
    for k in range(1, n + 1):
        cp = count_progs(n - k, grammar)
        block = count_stmts(k, grammar) * cp
        if i < block:
            return (unrank_stmt(k, i // cp, grammar),) + unrank_prog(n - k, i % cp, grammar)
        i -= block
    raise IndexError


def unrank_stmt(n, i, grammar):
    L, O, T = _grammar(grammar)
    if n == 1:
        if i < len(L):
            return (L[i],)
        i -= len(L)
    cp = count_progs(n - 1, grammar)
    if i < len(O) * cp:
        return (O[i // cp], unrank_prog(n - 1, i % cp, grammar))
    i -= len(O) * cp
    per_t = sum(count_progs(a, grammar) * count_progs(n - 1 - a, grammar) for a in range(n))
    t, i = T[i // per_t], i % per_t
    for a in range(n):
        c2 = count_progs(n - 1 - a, grammar)
        block = count_progs(a, grammar) * c2
        if i < block:
            return (t, unrank_prog(a, i // c2, grammar), unrank_prog(n - 1 - a, i % c2, grammar))
        i -= block
    raise IndexError


def progs_upto(nmax, grammar, shard=0, nshards=1):
    """all programs with <= nmax nodes; shards are contiguous index ranges produced by unranking"""
    sizes = [count_progs(n, grammar) for n in range(nmax + 1)]
    total = sum(sizes)
    lo = total * shard // nshards
    hi = total * (shard + 1) // nshards
    base = 0
    for n, sz in enumerate(sizes):
        a, b = max(lo, base), min(hi, base + sz)
        for i in range(a, b):
            yield unrank_prog(n, i - base, grammar)
        base += sz


def blk(code):
    assert len(code) < 65536
    return len(code).to_bytes(2, 'big') + code


KEY_V = b'\x01v'     # len-prefixed cache key 'v'
KEY_C = b'\x01c'
KEY_R = b'\x01r'
REC_VARIANTS = ((1, 'call'), (2, 'call'), (1, 'try'), (2, 'try'))


def render_rec(p, variant=(2, 'call'), first_marker=0x10):
    """program of the 'rec' grammar: call budget in register r, the program, then CALL0 (bare, or inside a
    TRY so that the state after a failed call is observable)"""
    budget, tail = variant
    call = op('CALL') + b'\x00'
    if tail == 'try':
        call = op('TRY_EXCEPT') + blk(call) + blk(b'')
    return op('PUSH0') + bytes([budget]) + op('WRITE_CACHE') + KEY_R + b'\x01' + render(p, first_marker) + call


class Render:
    """abstract program -> bytecode; markers are numbered in order of appearance"""

    def __init__(self, first_marker=0x10):
        self.next = first_marker

    def marker(self):
        m = self.next
        self.next += 1
        if self.next in (0xff,):
            self.next = 0x10
        return op('PUSH0') + bytes([m])

    def prog(self, p):
        return b''.join(self.stmt(s) for s in p)

    def stmt(self, s):
        k = s[0]
        if k == 'M':
            return self.marker()
        if k == 'T':
            return op('TRUE')
        if k == 'F':
            return op('FALSE')
        if k == 'RETURN':
            return op('RETURN')
        if k == 'FAIL':
            return op('FALSE') + op('VERIFY')
        if k == 'CALL0':
            return op('CALL') + b'\x00'
        if k == 'CALL1':
            return op('CALL') + b'\x01'
        if k == 'RCALL0':
            # if r > 0: r -= 1; CALL 0   (recursion that ends without touching any limit)
            dec = op('READ_CACHE') + KEY_R + op('PUSH0') + b'\x01' + op('SWAP2') + op('SUBTRACT_INTS') + b'\x02' \
                + op('WRITE_CACHE') + KEY_R + b'\x01'
            return op('READ_CACHE') + KEY_R + op('IF') + blk(dec + op('CALL') + b'\x00')
        if k == 'SETV':
            return self.marker() + op('WRITE_CACHE') + KEY_V + b'\x01'
        if k == 'GETV':
            return op('READ_CACHE') + KEY_V
        if k == 'WE':
            return self.marker() + op('WRITE_CACHE') + b'\x01E\x01'
        if k == 'WP':
            return self.marker() + op('POP0')
        if k == 'WRET':
            return op('TRUE') + op('WRITE_CACHE') + b'\x08returned\x01'
        if k == 'SPEND':
            return op('DEF') + b'\x05' + blk(b'') + op('CALL') + b'\x05'
        if k == 'DROP':
            return op('POP0')
        if k == 'EMPTY':
            return b'\x03\x00'        # PUSH1 of the empty item
        if k == 'VERIFYW':
            return op('VERIFY')
        if k == 'IFT':
            return op('TRUE') + op('IF') + blk(self.prog(s[1]))
        if k == 'IFF':
            return op('FALSE') + op('IF') + blk(self.prog(s[1]))
        if k == 'IFELSE_T':
            return op('TRUE') + op('IF_ELSE') + blk(self.prog(s[1])) + blk(self.prog(s[2]))
        if k == 'IFELSE_F':
            return op('FALSE') + op('IF_ELSE') + blk(self.prog(s[1])) + blk(self.prog(s[2]))
        if k == 'TRY':
            return op('TRY_EXCEPT') + blk(self.prog(s[1])) + blk(self.prog(s[2]))
        if k == 'LOOP1':
            body = op('POP0') + self.prog(s[1]) + op('FALSE')
            return op('TRUE') + op('LOOP') + blk(body) + op('POP0')
        if k == 'LOOP2':
            # counter in cache register c: body runs twice
            tail = op('READ_CACHE') + KEY_C + op('PUSH0') + b'\x01' + op('SWAP2') + op('SUBTRACT_INTS') + b'\x02' \
                + op('DUP') + op('WRITE_CACHE') + KEY_C + b'\x01'
            body = op('POP0') + self.prog(s[1]) + tail
            return op('PUSH0') + b'\x02' + op('WRITE_CACHE') + KEY_C + b'\x01' + op('TRUE') + op('LOOP') + blk(body) + op('POP0')
        if k == 'DEF0':
            return op('DEF') + b'\x00' + blk(self.prog(s[1]))
        if k == 'DEF1':
            return op('DEF') + b'\x01' + blk(self.prog(s[1]))
        if k == 'FUNC':
            return op('DEF') + b'\x02' + blk(self.prog(s[1])) + op('CALL') + b'\x02'
        if k == 'EVAL':
            body = self.prog(s[1])
            if not body:
                body = op('NOT') * 0 + b''      # empty script: EVAL must reject it
            return (push(body) if body else b'\x03\x00') + op('EVAL')
        if k == 'RAW':
            return s[1]
        raise ValueError(k)


def render(p, first_marker=0x10):
    return Render(first_marker).prog(p)


CHAIN_KINDS = ('IFT', 'IFELSE_T', 'IFELSE_F2', 'TRY', 'EXCEPT', 'LOOP1', 'FUNC', 'EVAL')
CHAIN_LEAVES = ('M', 'RETURN', 'FAIL', 'CALL9', 'GETV')


def chain_progs(maxdepth):
    """every nesting chain of depth 1..maxdepth over the construct kinds x innermost leaf, with a
    marker after the construct at each level"""
    for d in range(1, maxdepth + 1):
        for kinds in itertools.product(CHAIN_KINDS, repeat=d):
            for leaf in CHAIN_LEAVES:
                inner = (('M',), (leaf,) if leaf != 'CALL9' else ('RAW', op('CALL') + b'\x09'), ('M',))
                for k in reversed(kinds):
                    if k == 'IFELSE_F2':
                        st = ('IFELSE_F', (('M',),), inner)
                    elif k == 'IFELSE_T':
                        st = ('IFELSE_T', inner, (('M',),))
                    elif k == 'TRY':
                        st = ('TRY', inner, (('M',),))
                    elif k == 'EXCEPT':
                        st = ('TRY', (('FAIL',),), inner)
                    else:
                        st = (k, inner)
                    inner = (('M',), st, ('M',))
                yield inner


# ------------------------------------------------------------------ malformed byte strings derived from CTRL programs
DELTAS = (1, 255, 200)


def malformed(nmax, grammar, shard=0, nshards=1, deltas=DELTAS, first_marker=0x10):
    """for every program with <= nmax nodes: every strict byte-prefix of its bytecode and every single-byte
    perturbation (byte + delta mod 256): truncated operands and bodies, over- and under-declared block lengths
    at every nesting level, replaced opcodes. Yields (program, kind, position, bytes)."""
    for p in progs_upto(nmax, grammar, shard, nshards):
        b = render(p, first_marker)
        seen = {b}
        for cut in range(1, len(b)):
            c = b[:cut]
            if c not in seen:
                seen.add(c)
                yield (p, 'prefix', cut, c)
        for i in range(len(b)):
            for d in deltas:
                c = b[:i] + bytes([(b[i] + d) & 0xff]) + b[i + 1:]
                if c not in seen:
                    seen.add(c)
                    yield (p, 'byte+%d' % d, i, c)
