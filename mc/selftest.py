"""Reference-model self-tests (run by setup and usable stand-alone).  A failure here is a bug in
the verification machinery, never a property violation: exit 2."""
import os
import sys

sys.path.insert(0, os.path.dirname(os.path.dirname(os.path.abspath(__file__))))
sys.set_int_max_str_digits(0)

from ref import refed, refvm, refasm, optable  # noqa: E402
from ref.optable import op, push  # noqa: E402


def P(b):
    return push(b) if len(b) else b'\x03\x00'


def run(code, ro=None, **kw):
    e = refvm.Env(**kw)
    r = refvm.run_scripts([code], e, ro={'timestamp': 1_700_000_000, **(ro or {})})
    return r


def expect_stack(name, code, want, **kw):
    r = run(code, **kw)
    assert r[0] == 'ok' and [bytes(x) for x in r[1]] == want, (name, r)


def expect_error(name, code, **kw):
    r = run(code, **kw)
    assert r[0] == 'error', (name, r)


def main():
    assert refed.selftest(), 'RFC 8032 vectors'
    docs = os.environ.get('TAPESCRIPT_SRC', '/repo') + '/docs.md'
    if os.path.exists(docs):
        assert optable.check_against_docs(docs), 'opcode table differs from docs.md'
        al = refasm.documented_aliases(docs)
        assert al['CHECK_SIG'] and 'CS' in al['CHECK_SIG'] and len(al) == 92, 'alias table from docs.md'
    i = lambda n: refvm.enc_int(n)
    # operand orders pinned by the unit tests (tests/test_functions.py)
    expect_stack('SUBTRACT_INTS top - rest', P(i(3)) + P(i(10)) + op('SUBTRACT_INTS') + b'\x02', [i(7)])
    expect_stack('DIV_INTS top // second', P(i(3)) + P(i(12)) + op('DIV_INTS'), [i(4)])
    expect_stack('MOD_INTS top % second', P(i(5)) + P(i(12)) + op('MOD_INTS'), [i(2)])
    expect_stack('DIV_INT stack // tape', P(i(12)) + op('DIV_INT') + b'\x01\x05', [i(2)])
    expect_stack('LESS top < second', P(i(5)) + P(i(3)) + op('LESS'), [b'\xff'])
    expect_stack('LESS_OR_EQUAL', P(i(3)) + P(i(3)) + op('LESS_OR_EQUAL'), [b'\xff'])
    expect_stack('CONCAT bottom+top', P(b'ab') + P(b'cd') + op('CONCAT'), [b'abcd'])
    expect_stack('SPLIT', P(b'abcd') + P(i(1)) + op('SPLIT'), [b'a', b'bcd'])
    expect_stack('SWAP2', P(b'a') + P(b'b') + op('SWAP2'), [b'b', b'a'])
    expect_stack('SWAP 0 2', P(b'a') + P(b'b') + P(b'c') + op('SWAP') + b'\x00\x02', [b'c', b'b', b'a'])
    expect_stack('REVERSE 3', P(b'a') + P(b'b') + P(b'c') + op('REVERSE') + b'\x03', [b'c', b'b', b'a'])
    expect_stack('COPY 2', P(b'a') + op('COPY') + b'\x02', [b'a'] * 3)
    expect_stack('NOT bitwise', P(b'\x0f\xf0') + op('NOT'), [b'\xf0\x0f'])
    expect_stack('write/read cache reverses', P(b'1') + P(b'2') + P(b'3') + op('WRITE_CACHE') + b'\x01k\x03' + op('READ_CACHE') + b'\x01k',
                 [b'3', b'2', b'1'])
    expect_stack('SIZE pops', P(b'abc') + op('SIZE'), [i(3)])
    expect_stack('DEPTH', P(b'a') + P(b'b') + op('DEPTH'), [b'a', b'b', i(2)])
    expect_stack('MOD_FLOATS second % top', P(refvm.f32_encode(13.0)) + P(refvm.f32_encode(131.0)) + op('MOD_FLOATS'), [refvm.f32_encode(13.0)])
    expect_stack('ADD_FLOATS', P(refvm.f32_encode(1.5)) + P(refvm.f32_encode(2.25)) + op('ADD_FLOATS') + b'\x02', [refvm.f32_encode(3.75)])
    expect_stack('FLOAT_TO_INT truncates', P(refvm.f32_encode(-2.75)) + op('FLOAT_TO_INT'), [i(-2)])
    # control flow scoping (test_OP_RETURN_* in tests/test_functions.py)
    expect_stack('RETURN in def', bytes.fromhex('2900000230002a0001'), [b'\xff'])
    expect_stack('RETURN in IF in def exits def', bytes.fromhex('290000062b0002300001012a000202'), [b'\x02'])
    expect_stack('RETURN in EVAL stays local', bytes.fromhex('290000050230 2d02ff 2a00'.replace(' ', '')), [b'\xff'])
    r = refvm.run_scripts([bytes.fromhex('2900000502302d02ff2a00')], refvm.Env(), ro={}, flags={'eval_return': True})
    assert r[0] == 'ok' and r[1] == [], ('eval_return', r)
    expect_stack('TRY/EXCEPT', op('TRY_EXCEPT') + b'\x00\x02\x00\x20' + b'\x00\x02' + P(b'\x07'), [b'\x07'])
    expect_error('VERIFY false', op('FALSE') + op('VERIFY'))
    expect_error('loop limit', op('TRUE') + op('LOOP') + b'\x00\x00', limit=4)
    expect_error('call depth', op('DEF') + b'\x00\x00\x02' + op('CALL') + b'\x00' + op('CALL') + b'\x00', limit=3)
    expect_error('operand past end', op('PUSH1') + b'\x05ab')
    expect_error('stack limit', op('TRUE') + op('COPY') + b'\x05', max_items=4)
    expect_error('item limit', P(b'abcd') + op('DUP') + op('CONCAT'), max_item_size=7)
    # NOP semantics
    expect_stack('NOP pops count', P(b'a') + P(b'b') + b'\xc8\x01', [b'a'])
    expect_error('NOP negative', P(b'a') + b'\xc8\x80')
    # time
    expect_stack('CTS', P((1_700_000_000).to_bytes(4, 'big')) + op('CHECK_TIMESTAMP'), [b'\xff'], now=1_700_000_000)
    expect_stack('CTS future slack', P(b'\x00') + op('CHECK_TIMESTAMP'), [b'\x00'], now=1_700_000_000 - 60)
    # float codec
    for bits in (0x3f800000, 0xbfc00000, 0x00000001, 0x7f7fffff, 0x80000000, 0x7f800000, 0x00800000, 0x007fffff):
        b = bits.to_bytes(4, 'big')
        assert refvm.f32_encode(refvm.f32_decode(b)) == b, hex(bits)
    assert refvm.f32_encode(3.5e38) is None and refvm.f32_encode(1e-46) == b'\x00\x00\x00\x00'
    # assembler / disassembler consistency on a nested program
    prog = [('PUSH', ('x', b'\x01' * 300)), ('IFELSE', [('I', 'TRUE', [])], [('DEF', ('d', 3), [('I', 'SWAP', [('d', 1), ('x', b'\x02')])])]),
            ('I', 'NOP200', [('d', -1)])]
    code = refasm.encode_prog(prog)
    assert refasm.flat_names(refasm.disassemble(code)) == ['PUSH2', 'IF_ELSE', 'TRUE', 'DEF', 'SWAP', 'NOP200'], refasm.disassemble(code)
    print('selftest ok')


if __name__ == '__main__':
    try:
        main()
    except AssertionError as e:
        print('SELFTEST-FAILED (bug in the verification machinery):', e, file=sys.stderr)
        sys.exit(2)
